package storage

import (
	"bytes"
	"os"
	"path/filepath"

	pcom "github.com/polynetwork/poly/common"
	"github.com/polynetwork/poly/merkle"

	"polysim/kernel"
)

// C06: CompactMerkleTree on the file hash store is a correct append-only RFC 6962 tree.
//
// A plan is an append history interleaved with root predictions, marshal/unmarshal, in-memory
// reload, persist (remember (size, hashes) as the ledger's state batch would), clean close+reopen
// and "crash after the file append, before the size is persisted" (reopen with the OLDER persisted
// (size, hashes) while the hash file is longer). The plan is executed once as written (baseline,
// with the full proof grid), and then once more for EVERY position p of the plan and for both fault
// kinds with that fault injected after step p (fault enumeration), each on a fresh file.

type c06World struct {
	run      *kernel.Run
	quiet    bool // enumerated re-executions do not write per-step trace lines
	path     string
	store    merkle.HashStore
	tree     *merkle.CompactMerkleTree
	ref      *refTree
	durSize  uint32
	durHash  []pcom.Uint256
	verifier *merkle.MerkleVerifier
	appends  int
	maxSize  int
	sig      *sigAcc
	evals    int
}

func (w *c06World) logf(format string, a ...interface{}) {
	if !w.quiet {
		w.run.Logf(format, a...)
	}
}

func (w *c06World) fail(key, format string, a ...interface{}) bool {
	w.run.Fail("C06", key, format, a...)
	return false
}

func (w *c06World) openFresh(dir string, label string) {
	w.path = filepath.Join(dir, label+".db")
	os.Remove(w.path)
	st, err := merkle.NewFileHashStore(w.path, 0)
	if err != nil {
		panic(err)
	}
	w.store = st
	w.tree = merkle.NewTree(0, nil, st)
	w.ref = newRefTree()
	w.durSize, w.durHash = 0, nil
}

func (w *c06World) close() {
	if w.store != nil {
		w.store.Close()
		w.store = nil
	}
}

func (w *c06World) checkRoot(when string) bool {
	n := w.ref.size()
	if int(w.tree.TreeSize()) != n {
		return w.fail("tree-size", "%s: TreeSize()=%d, %d leaves appended", when, w.tree.TreeSize(), n)
	}
	got, want := w.tree.Root(), w.ref.root(n)
	if hash32(got) != want {
		return w.fail("root-differs-from-rfc6962", "%s: Root()=%x at size %d, RFC 6962 tree hash of the appended leaves is %x", when, got, n, want)
	}
	return true
}

func (w *c06World) persist() {
	w.durSize = w.tree.TreeSize()
	w.durHash = append([]pcom.Uint256(nil), w.tree.Hashes()...)
}

// reopenWith closes the hash file and reopens tree and store from (size, hashes).
func (w *c06World) reopenWith(size uint32, hashes []pcom.Uint256, what string) bool {
	w.close()
	st, err := merkle.NewFileHashStore(w.path, size)
	if err != nil {
		return w.fail("reopen-failed", "%s: NewFileHashStore(size=%d) failed: %v", what, size, err)
	}
	w.store = st
	w.tree = merkle.NewTree(size, append([]pcom.Uint256(nil), hashes...), st)
	return true
}

func b2int(b bool) int {
	if b {
		return 1
	}
	return 0
}

func toU256(hs []hash32) []pcom.Uint256 {
	out := make([]pcom.Uint256, len(hs))
	for i := range hs {
		out[i] = pcom.Uint256(hs[i])
	}
	return out
}

func fromU256(hs []pcom.Uint256) []hash32 {
	out := make([]hash32, len(hs))
	for i := range hs {
		out[i] = hash32(hs[i])
	}
	return out
}

// refPathBytes is the reference rendering of the "leaf path" proof format: varbytes(leaf) followed
// by (position flag, sibling hash) from the leaf level upwards; flag RIGHT = sibling is on the right.
func refPathBytes(leaf []byte, path []hash32, right []bool) []byte {
	sink := pcom.NewZeroCopySink(nil)
	sink.WriteVarBytes(leaf)
	for i := range path {
		if right[i] {
			sink.WriteByte(merkle.RIGHT)
		} else {
			sink.WriteByte(merkle.LEFT)
		}
		sink.WriteBytes(path[i][:])
	}
	return sink.Bytes()
}

// checkInclusion: proof of leaf m in D[0:n] from the tree (both APIs) equals the reference path and
// is accepted by the repo's verifiers against the reference root of size n.
func (w *c06World) checkInclusion(m, n int) bool {
	w.evals++
	root := w.ref.root(n)
	rp, rd := w.ref.path(m, n)
	got, err := w.tree.InclusionProof(uint32(m), uint32(n))
	if err != nil {
		return w.fail("inclusion-proof-error", "InclusionProof(%d,%d) at tree size %d: %v", m, n, w.tree.TreeSize(), err)
	}
	if !hashesEqual(fromU256(got), rp) {
		return w.fail("inclusion-proof-differs", "InclusionProof(%d,%d) = %x, RFC 6962 PATH = %x", m, n, got, rp)
	}
	if err := w.verifier.VerifyLeafInclusion(w.ref.leaves[m], uint32(m), got, pcom.Uint256(root), uint32(n)); err != nil {
		return w.fail("inclusion-proof-rejected", "VerifyLeafInclusion rejects the tree's own proof (%d,%d): %v", m, n, err)
	}
	if err := w.verifier.VerifyLeafHashInclusion(pcom.Uint256(w.ref.lh[m]), uint32(m), got, pcom.Uint256(root), uint32(n)); err != nil {
		return w.fail("inclusion-proof-rejected", "VerifyLeafHashInclusion rejects the tree's own proof (%d,%d): %v", m, n, err)
	}
	pb, err := w.tree.MerkleInclusionLeafPath(w.ref.leaves[m], uint32(m), uint32(n))
	if err != nil {
		return w.fail("inclusion-proof-error", "MerkleInclusionLeafPath(%d,%d): %v", m, n, err)
	}
	if want := refPathBytes(w.ref.leaves[m], rp, rd); !bytes.Equal(pb, want) {
		return w.fail("leaf-path-differs", "MerkleInclusionLeafPath(%d,%d) = %x, reference %x", m, n, pb, want)
	}
	val, err := merkle.MerkleProve(pb, root[:])
	if err != nil || !bytes.Equal(val, w.ref.leaves[m]) {
		return w.fail("leaf-path-rejected", "MerkleProve rejects the tree's own leaf path (%d,%d): value %x err %v", m, n, val, err)
	}
	return true
}

func (w *c06World) checkConsistency(m, n int) bool {
	w.evals++
	got := w.tree.ConsistencyProof(uint32(m), uint32(n))
	rm, rn := w.ref.root(m), w.ref.root(n)
	if m >= 1 {
		want := w.ref.proof(m, n)
		if !hashesEqual(fromU256(got), want) {
			return w.fail("consistency-proof-differs", "ConsistencyProof(%d,%d) = %x, RFC 6962 PROOF = %x", m, n, got, want)
		}
	}
	if err := w.verifier.VerifyConsistency(uint32(m), uint32(n), pcom.Uint256(rm), pcom.Uint256(rn), got); err != nil {
		return w.fail("consistency-proof-rejected", "VerifyConsistency rejects the tree's own proof (%d,%d): %v", m, n, err)
	}
	return true
}

// checkProofs: mode 0 = full (leaf,size) and (m,n) grid up to min(size,gridMax); mode 1 = everything
// against the current size only; mode 2 = sampled.
func (w *c06World) checkProofs(mode int, gridMax int, rng *kernel.RNG, samples int) bool {
	size := w.ref.size()
	if size == 0 {
		return true
	}
	switch mode {
	case 0:
		g := min(size, gridMax)
		for n := 1; n <= g; n++ {
			for m := 0; m < n; m++ {
				if !w.checkInclusion(m, n) {
					return false
				}
			}
			for m := 0; m <= n; m++ {
				if !w.checkConsistency(m, n) {
					return false
				}
			}
		}
		if size > g {
			return w.checkProofs(2, gridMax, rng, samples)
		}
	case 1:
		for m := 0; m < size; m++ {
			if !w.checkInclusion(m, size) {
				return false
			}
		}
		for m := 0; m <= size; m++ {
			if !w.checkConsistency(m, size) {
				return false
			}
		}
	default:
		for i := 0; i < samples; i++ {
			n := 1 + rng.Intn(size)
			if rng.Chance(0.3) {
				n = size
			}
			if !w.checkInclusion(rng.Intn(n), n) || !w.checkConsistency(rng.Intn(n+1), n) {
				return false
			}
		}
	}
	return true
}

// predict asks `t` (a tree holding exactly the reference leaves) for the root it would have after k more
// 32-byte leaves and compares with the reference. It never calls Root() itself, so it observes the tree
// in whatever cache state the preceding operation left it. how: 0 GetRootWithNewLeaves (nil slice for
// k = 0), 1 GetRootWithNewLeaves (empty non-nil slice for k = 0), 2 GetRootWithNewLeaf when k == 1.
func (w *c06World) predict(t *merkle.CompactMerkleTree, k int, id int64, how int, when string) (pcom.Uint256, []pcom.Uint256, bool) {
	var leaves []pcom.Uint256
	var extra [][]byte
	if how == 1 {
		leaves = []pcom.Uint256{}
	}
	for j := 0; j < k; j++ {
		d := leafData(0, id+int64(j))
		var u pcom.Uint256
		copy(u[:], d)
		leaves = append(leaves, u)
		extra = append(extra, d)
	}
	var pred pcom.Uint256
	api := "GetRootWithNewLeaves"
	if k == 1 && how == 2 {
		api = "GetRootWithNewLeaf"
		pred = t.GetRootWithNewLeaf(leaves[0])
	} else {
		pred = t.GetRootWithNewLeaves(leaves)
	}
	if want := w.ref.rootWith(extra); hash32(pred) != want {
		return pred, leaves, w.fail("predicted-root-wrong", "%s: %s for %d new leaves at size %d is %x, RFC 6962 says %x", when, api, k, w.ref.size(), pred, want)
	}
	return pred, leaves, true
}

// cold makes an observation that does not go through Root() right after an operation that left the
// root cache cold (append, UnMarshal, rebuild from (size, hashes), reopen from the hash file). sel picks
// what: 0-3 nothing (the usual order: Root() first), 4/5 prediction with zero extra leaves (nil / empty
// slice), 6 GetRootWithNewLeaf, 7 GetRootWithNewLeaves with 1-3 leaves.
func (w *c06World) cold(t *merkle.CompactMerkleTree, sel int64, id int64, baseline bool, when string) bool {
	k, how := 0, 0
	switch umod(sel, 8) {
	case 0, 1, 2, 3:
		return true
	case 4:
	case 5:
		how = 1
	case 6:
		k, how = 1, 2
	default:
		k = 1 + umod(id, 3)
	}
	_, _, ok := w.predict(t, k, id, how, when+" (before any Root() call)")
	if ok && baseline {
		if k == 0 {
			w.run.Probe("cold_cache_zero_leaf_prediction")
		} else {
			w.run.Probe("cold_cache_prediction")
		}
	}
	if ok {
		w.logf("cold prediction %s: k=%d how=%d ok", when, k, how)
	}
	return ok
}

// step executes one plan step; returns false on violation. Bit 3 of a step's observation argument
// defers the Root() comparison to a later step, so that whatever comes next (prediction, marshal, proofs,
// persist, reopen) also meets a tree whose root cache is cold.
func (w *c06World) step(i int, st kernel.Step, baseline bool) bool {
	run := w.run
	switch st.Op {
	case "app":
		d := leafData(st.Arg(1), st.Arg(0))
		w.tree.Append(d)
		w.ref.add(d)
		w.appends++
		if !w.cold(w.tree, st.Arg(2), st.Arg(0), baseline, "after append") {
			return false
		}
		if st.Arg(2)&8 != 0 {
			w.logf("append #%d len %d (root check deferred)", w.ref.size(), len(d))
			break
		}
		if !w.checkRoot("after append") {
			return false
		}
		w.logf("append #%d len %d -> root %x", w.ref.size(), len(d), w.tree.Root())
	case "pred", "predapp":
		k := umod(st.Arg(0), 6)
		pred, leaves, ok := w.predict(w.tree, k, st.Arg(1), umod(st.Arg(2), 2)*2+umod(st.Arg(2)>>1, 2)*b2int(k == 0), "prediction step")
		if !ok {
			return false
		}
		if !w.checkRoot("after prediction (tree must be unchanged)") {
			return false
		}
		w.logf("%s %d leaves -> %x", st.Op, k, pred)
		if st.Op == "predapp" {
			for j := 0; j < k; j++ {
				w.tree.Append(leaves[j].ToArray())
				w.ref.add(leaves[j][:])
				w.appends++
			}
			if w.tree.Root() != pred {
				return w.fail("prediction-differs-from-actual", "root predicted for %d leaves %x, root after appending them %x", k, pred, w.tree.Root())
			}
			if baseline {
				run.Probe("prediction_then_append")
			}
		}
	case "marshal":
		b, err := w.tree.Marshal()
		if err != nil {
			return w.fail("marshal-error", "Marshal: %v", err)
		}
		t := w.tree
		if st.Arg(0)%2 == 1 {
			t = merkle.NewTree(0, nil, w.store)
		}
		if err := t.UnMarshal(b); err != nil {
			return w.fail("marshal-error", "UnMarshal of own Marshal output: %v", err)
		}
		w.tree = t
		if !w.cold(w.tree, st.Arg(1), st.Arg(0)+77, baseline, "after UnMarshal") {
			return false
		}
		// the same bytes loaded into a store-less tree that held (and cached the root of) another state
		o := merkle.NewTree(0, nil, nil)
		o.Append([]byte("other state"))
		o.Append([]byte("other state 2"))
		_ = o.Root()
		if err := o.UnMarshal(b); err != nil {
			return w.fail("marshal-error", "UnMarshal into another tree: %v", err)
		}
		if !w.cold(o, st.Arg(1)>>4, st.Arg(0)+78, baseline, "after UnMarshal into a used store-less tree") {
			return false
		}
		if hash32(o.Root()) != w.ref.root(w.ref.size()) || int(o.TreeSize()) != w.ref.size() {
			return w.fail("unmarshal-into-used-tree", "a tree that held another state reports size %d root %x after UnMarshal of (size %d, root %x)", o.TreeSize(), o.Root(), w.ref.size(), w.ref.root(w.ref.size()))
		}
		w.logf("marshal/unmarshal mode %d (%d bytes)", st.Arg(0)%2, len(b))
		if st.Arg(1)&8 == 0 && !w.checkRoot("after Marshal/UnMarshal") {
			return false
		}
	case "memreload":
		// in-memory save and reload of the compact state, no store: roots and predictions only
		t := merkle.NewTree(w.tree.TreeSize(), append([]pcom.Uint256(nil), w.tree.Hashes()...), nil)
		if !w.cold(t, st.Arg(1), st.Arg(0)+79, baseline, "after rebuilding a store-less tree from (size, hashes)") {
			return false
		}
		if t.Root() != w.tree.Root() {
			return w.fail("memory-reload-root", "tree rebuilt from (size, hashes) has root %x, original %x", t.Root(), w.tree.Root())
		}
		d := leafData(0, st.Arg(0))
		t.Append(d)
		tmp := newRefTree()
		for _, x := range w.ref.leaves {
			tmp.add(x)
		}
		tmp.add(d)
		if hash32(t.Root()) != tmp.root(tmp.size()) {
			return w.fail("memory-reload-root", "store-less reloaded tree has root %x after one append, RFC 6962 says %x", t.Root(), tmp.root(tmp.size()))
		}
		w.logf("memreload ok")
	case "persist":
		w.persist()
		w.logf("persist size %d", w.durSize)
	case "reopen":
		w.persist()
		if !w.reopenWith(w.durSize, w.durHash, "clean reopen") {
			return false
		}
		if baseline {
			run.Fault("close_reopen")
		}
		w.logf("reopen at size %d", w.durSize)
		if !w.cold(w.tree, st.Arg(0), int64(w.durSize)+80, baseline, "after close+reopen from the hash file") {
			return false
		}
		if st.Arg(0)&8 == 0 && !w.checkRoot("after close+reopen") {
			return false
		}
	case "crash":
		lost := w.ref.size() - int(w.durSize)
		if !w.reopenWith(w.durSize, w.durHash, "reopen after crash") {
			return false
		}
		w.ref.truncate(int(w.durSize))
		if baseline {
			run.Fault("crash_after_append_before_persist")
			if lost > 0 {
				run.Probe("reopen_with_longer_file")
			}
		}
		w.logf("crash: back to size %d (%d appended leaves lost, file keeps them)", w.durSize, lost)
		if !w.cold(w.tree, st.Arg(0), int64(w.durSize)+81, baseline, "after crash+reopen with the older persisted state") {
			return false
		}
		if st.Arg(0)&8 == 0 && !w.checkRoot("after crash+reopen with the older persisted state") {
			return false
		}
	case "proofs":
		rng := kernel.NewRNG(kernel.Derive(run.Plan.Seed, "c06proofs", uint64(st.Arg(1))))
		if !w.checkProofs(umod(st.Arg(0), 3), int(run.Plan.C("grid", 40)), rng, 24) {
			return false
		}
		w.logf("proofs mode %d ok at size %d", umod(st.Arg(0), 3), w.ref.size())
	}
	if w.ref.size() > w.maxSize {
		w.maxSize = w.ref.size()
	}
	return true
}

func c06Generate(rng *kernel.RNG, idx int, tier string) *kernel.Plan {
	maxN := 70
	if tier == "thorough" {
		maxN = []int{70, 150, 300, 600}[rng.Intn(4)]
	}
	n := rng.Intn(maxN + 1)
	switch rng.Intn(8) {
	case 0:
		n = rng.Intn(6) // very small trees, including empty
	case 1:
		n = maxN
	}
	idSpace := int64(1 << 30)
	if rng.Chance(0.2) {
		idSpace = 4 // duplicate leaves
	}
	kindSwarm := rng.Intn(3) // 0: block hashes only, 1: all lengths, 2: mostly hashes
	var steps []kernel.Step
	wt := []int{0, 6, 3, 4, 2, 6, 3, 4, 2} // app pred predapp marshal memreload persist reopen crash proofs
	for i := range wt {
		switch rng.Intn(6) {
		case 0:
			wt[i] = 0
		case 1:
			wt[i] *= 3
		}
	}
	ops := []string{"app", "pred", "predapp", "marshal", "memreload", "persist", "reopen", "crash", "proofs"}
	// observation order: per run, a fraction (0, 1/4, 1/2 or all) of the cache-cooling steps is followed by a
	// Root()-free observation and/or defers its Root() comparison (bit 3)
	obsP := []float64{0, 0.25, 0.5, 1}[rng.Intn(4)]
	obs := func() int64 {
		if !rng.Chance(obsP) {
			return 0
		}
		return int64(rng.Intn(16)) | int64(rng.Intn(16))<<4
	}
	appended := 0
	for appended < n {
		// a burst of appends, then maybe something else
		for b := 1 + rng.Intn(4); b > 0 && appended < n; b-- {
			kind := int64(0)
			if kindSwarm == 1 || (kindSwarm == 2 && rng.Chance(0.2)) {
				kind = int64(rng.Intn(nLeafKinds))
			}
			steps = append(steps, kernel.Step{Op: "app", A: []int64{rng.Int63() % idSpace, kind, obs()}})
			appended++
		}
		if rng.Chance(0.45) {
			op := ops[weighted(rng, wt)]
			switch op {
			case "pred":
				steps = append(steps, kernel.Step{Op: op, A: []int64{int64(rng.Intn(6)), rng.Int63() % idSpace, int64(rng.Intn(4))}})
			case "predapp":
				k := rng.Intn(6)
				steps = append(steps, kernel.Step{Op: op, A: []int64{int64(k), rng.Int63() % idSpace, 0}})
				appended += k
			case "marshal":
				steps = append(steps, kernel.Step{Op: op, A: []int64{int64(rng.Intn(2)), obs()}})
			case "memreload":
				steps = append(steps, kernel.Step{Op: op, A: []int64{rng.Int63() % idSpace, obs()}})
			case "reopen", "crash":
				steps = append(steps, kernel.Step{Op: op, A: []int64{obs()}})
			case "proofs":
				steps = append(steps, kernel.Step{Op: op, A: []int64{int64(1 + rng.Intn(2)), int64(rng.Intn(1 << 20))}})
			case "app":
			default:
				steps = append(steps, kernel.Step{Op: op})
			}
		}
	}
	if n == 0 && rng.Chance(0.5) {
		steps = append(steps, kernel.Step{Op: "reopen"}, kernel.Step{Op: "pred", A: []int64{int64(rng.Intn(3)), 7, 1}})
	}
	steps = append(steps, kernel.Step{Op: "proofs", A: []int64{0, int64(rng.Intn(1 << 20))}})
	return &kernel.Plan{Cfg: map[string]int64{"grid": 40, "recover": int64(rng.Intn(2)), "coldsalt": int64(rng.Intn(8))}, Steps: steps}
}

func c06Execute(run *kernel.Run) {
	dir := kernel.TempDir("c06")
	defer os.RemoveAll(dir)
	sig := &sigAcc{}
	guard(run, "C06", "merkle tree / hash store operation", func() { c06Run(run, dir, sig) })
}

// fork copies the hash file of w as it is on disk right now and opens the copy with (size, hashes):
// exactly what "the process stops here and restarts from the persisted state" leaves behind. The
// reference leaves and the durable snapshot are copied; the original world is untouched.
func (w *c06World) fork(path string, size uint32, hashes []pcom.Uint256) (*c06World, bool) {
	data, err := os.ReadFile(w.path)
	if err != nil {
		panic(err)
	}
	if err := os.WriteFile(path, data, 0o644); err != nil {
		panic(err)
	}
	nw := &c06World{run: w.run, quiet: true, verifier: w.verifier, path: path, sig: w.sig, ref: w.ref.clone()}
	nw.durSize, nw.durHash = w.durSize, append([]pcom.Uint256(nil), w.durHash...)
	if !nw.reopenWith(size, hashes, "reopen of the enumerated case") {
		return nw, false
	}
	return nw, true
}

func c06Run(run *kernel.Run, dir string, sig *sigAcc) {
	steps := run.Plan.Steps
	recoverLost := run.Plan.C("recover", 0) == 1
	enumPath := filepath.Join(dir, "enum.db")
	// The plan as written runs on `base` (full checks, traced). After EVERY step p the fault enumeration
	// forks the on-disk state twice - {close+reopen with the current state, crash: reopen with the last
	// persisted (size, hashes) while the file is longer} - and lets each fork continue with the rest of the
	// plan (all of it for histories of up to 80 steps; otherwise the next max(60, 2*lost+16) steps, enough to
	// overwrite the stale tail and go beyond it), one more append and a final round of proofs.
	base := &c06World{run: run, verifier: merkle.NewMerkleVerifier(), sig: sig}
	base.openFresh(dir, "base")
	defer base.close()
	cases, evals := 0, 0
	for p, st := range steps {
		run.StepNo = p
		run.Steps++
		if !base.step(p, st, true) {
			return
		}
		if p%8 == 7 {
			r := base.tree.Root()
			run.State(r[:])
		}
		for _, kind := range []string{"reopen", "crash"} {
			var w *c06World
			var ok bool
			var lost [][]byte
			if kind == "reopen" {
				w, ok = base.fork(enumPath, base.tree.TreeSize(), base.tree.Hashes())
				if ok {
					w.persist()
				}
			} else {
				w, ok = base.fork(enumPath, base.durSize, base.durHash)
				if ok {
					lost = append([][]byte(nil), w.ref.leaves[min(int(w.durSize), w.ref.size()):]...)
					w.ref.truncate(int(w.durSize))
				}
			}
			// half of the forks are first observed through a prediction (cold root cache), half through Root()
			ok = ok && w.cold(w.tree, int64(p)*3+int64(len(kind))+run.Plan.C("coldsalt", 0), int64(p)+82, false, "after the enumerated "+kind) &&
				w.checkRoot("after the enumerated "+kind)
			if ok && kind == "crash" && recoverLost {
				// the ledger's recovery re-appends the lost block hashes
				for _, d := range lost {
					w.tree.Append(d)
					w.ref.add(d)
				}
				ok = w.checkRoot("after re-appending the lost leaves")
			}
			limit := len(steps)
			if len(steps) > 80 {
				limit = min(len(steps), p+1+max(60, 2*len(lost)+16))
			}
			for i := p + 1; i < limit && ok; i++ {
				run.StepNo = i
				if steps[i].Op != "proofs" { // enumerated executions check proofs once, at the end
					ok = w.step(i, steps[i], false)
				}
			}
			if ok {
				// the reopened tree must keep working: one more append, then proofs over the final tree
				d := leafData(0, int64(p)+12345)
				w.tree.Append(d)
				w.ref.add(d)
				ok = w.checkRoot("append after the enumerated fault")
			}
			if ok {
				rng := kernel.NewRNG(kernel.Derive(run.Plan.Seed, "c06enum", uint64(p*2)))
				if w.ref.size() <= 40 {
					ok = w.checkProofs(1, 40, rng, 0)
				} else {
					ok = w.checkProofs(2, 40, rng, 12)
				}
			}
			w.close()
			run.StepNo = p
			if !ok {
				run.Logf("enumerated case: %s injected after step %d (%s)", kind, p, steps[p])
				return
			}
			cases++
			evals += w.evals
			if kind == "crash" && len(lost) > 0 {
				run.Fault("enum_crash_with_lost_appends")
			} else if kind == "crash" {
				run.Fault("enum_crash_nothing_lost")
			} else {
				run.Fault("enum_close_reopen")
			}
			sig.add("%d:%s:%x", p, kind, w.ref.root(w.ref.size()))
		}
	}
	evals += base.evals
	finalRoot := base.ref.root(base.ref.size())
	sig.add("base:%d:%x", base.ref.size(), finalRoot)
	run.Logf("baseline size %d root %x; %d enumerated fault cases ok", base.ref.size(), finalRoot, cases)
	run.Probes["__evals"] = max(1, cases+1)
	run.Probes["proof_checks"] += evals
	if base.maxSize > 40 {
		run.Probe("tree_larger_than_grid")
	}
	if base.ref.size() == 0 {
		run.Probe("empty_tree")
	}
	if base.appends >= 3 && cases > 0 {
		run.Nontrivial(sig.h)
	}
	run.Sample = map[string]interface{}{"steps": len(steps), "final_size": base.ref.size(), "max_size": base.maxSize, "enumerated_fault_cases": cases, "proof_checks": evals}
}

func init() {
	kernel.Register(&kernel.Check{
		ID: "C06", Level: "fault_enumeration", Engine: engineName,
		Rule: "history = append sequence of 0..70 leaves (thorough: up to 600; 32-byte block hashes, or lengths 0/1/31/33/64/65, optionally from a 4-element id space so that leaves repeat) interleaved with GetRootWithNewLeaf/GetRootWithNewLeaves predictions (0-5 leaves), predict-then-append, " +
			"Marshal/UnMarshal (in place and into a new tree), store-less reload from (size, hashes), persist, clean close+reopen and crash-with-older-persisted-state steps, ended by the full (leaf, size) and (m, n) proof grid up to size 40 (sampled above). " +
			"Observation order is varied: in a per-run fraction (0, 1/4, 1/2, all) of the steps that leave the root cache cold (append, UnMarshal, rebuild from (size, hashes), reopen from the hash file - also in half of the enumerated forks) the first observation is a prediction " +
			"(zero extra leaves with nil or empty slice, GetRootWithNewLeaf, GetRootWithNewLeaves with 1-3 leaves) made before any Root() call, and/or the Root() comparison is deferred so that the next step (prediction, marshal, proofs, persist, reopen) meets the cold cache. " +
			"The history is executed as written on a tree over merkle.NewFileHashStore on a real file; after EVERY step p the on-disk state is forked (byte copy of the hash file) for both fault kinds {close+reopen, crash: reopen with the last persisted (size, hashes) while the file is longer} " +
			"and each fork continues with the rest of the history (all of it up to 80 steps, else the next max(60, 2*lost+16) steps; for half of the histories the lost leaves are re-appended first, as ledger recovery does), followed by one more append and proofs of every leaf / every old size against the final tree (sampled above size 40). " +
			"Oracle: naive recursive RFC 6962 MTH/PATH/PROOF; every proof must equal the reference and be accepted by MerkleVerifier / MerkleProve. evaluations = executed histories (baseline + enumerated fault cases); non-trivial = at least 3 appends; distinct by the roots reached in all cases",
		Real:        []string{"merkle.CompactMerkleTree (Append, Root, GetRootWithNewLeaf(s), Marshal/UnMarshal, InclusionProof, MerkleInclusionLeafPath, ConsistencyProof)", "merkle file hash store on a real file (tmpfs)", "merkle.MerkleVerifier, merkle.MerkleProve"},
		Stub:        []string{"the ledger's state batch that persists (size, hashes) is modelled by an in-memory snapshot taken at 'persist' steps"},
		Assumptions: []string{"process-crash model: a completed hash-file write survives (Append syncs), the persisted (size, hashes) is never newer than the file", "consistency proofs from size 0 are only required to be accepted (RFC 6962 defines PROOF for m >= 1)", "SHA-256 collision resistance"},
		QuickRuns:   320, ThoroughRuns: 6000, QuickCap: 40, ThoroughCap: 900,
		RequiredProbes: []string{"enum_crash_with_lost_appends", "enum_close_reopen", "reopen_with_longer_file", "prediction_then_append", "tree_larger_than_grid", "empty_tree", "close_reopen", "crash_after_append_before_persist", "cold_cache_zero_leaf_prediction", "cold_cache_prediction"},
		Exhaustive:     true,
		Generate:       c06Generate,
		Execute:        c06Execute,
	})
}
