// Package storage is polysim engine "E2 storage": the storage stack (MemDB, OverlayDB, CacheDB on a
// LevelDB) and the merkle accumulator (CompactMerkleTree on a file hash store, proof verifiers) of
// polynetwork/poly checked against small executable reference models. Reset, commit,
// close-and-reopen and crash-between-append-and-persist are generated operations (faults are steps).
// Checks: C06, C07, C09, C10, C11.
package storage

import (
	"bytes"
	"crypto/sha256"
	"encoding/binary"
	"fmt"
	"runtime"
	"sort"
	"strings"

	"polysim/kernel"
)

const engineName = "E2 storage"

// ---- key / value alphabets ------------------------------------------------------------------

var longP = strings.Repeat("p", 40)
var longQ = strings.Repeat("q", 300)

// rawKeys is the alphabet of the flat layers (MemDB): built to collide and nest: the empty key, keys
// that are prefixes of each other, keys differing in a trailing NUL, 0xff runs (BytesPrefix limits)
// and long shared prefixes.
var rawKeys = toBytes([]string{
	"", "\x00", "\x00\x00", "a", "a\x00", "a\x00\x00", "a\x01", "ab", "ab\x00", "aba", "abb", "ac",
	"b", "b\xff", "b\xff\xff", "c", "\xfe\xff", "\xff", "\xff\x00", "\xff\xff", "\xff\xff\xff",
	longP, longP + "a", longP + "a\x00", longP + "b", longP[:39], longQ, longQ + "\x00",
})

func toBytes(s []string) [][]byte {
	out := make([][]byte, len(s))
	for i := range s {
		out[i] = []byte(s[i])
	}
	return out
}

func pick(list [][]byte, arg int64) []byte {
	if len(list) == 0 {
		return nil
	}
	return clone(list[umod(arg, len(list))])
}

func umod(a int64, n int) int {
	if n <= 0 {
		return 0
	}
	m := int(a % int64(n))
	if m < 0 {
		m += n
	}
	return m
}

func clone(b []byte) []byte {
	if b == nil {
		return nil
	}
	c := make([]byte, len(b))
	copy(c, b)
	return c
}

const nValKinds = 8

// makeVal renders a value from (kind, id). Kinds 0 and 1 are the empty value (non-nil / nil), the
// others are non-empty.
func makeVal(kind, id int64) []byte {
	switch umod(kind, nValKinds) {
	case 0:
		return []byte{}
	case 1:
		return nil
	case 2:
		return []byte{0}
	case 3:
		return []byte{byte(id)}
	case 4:
		return []byte(fmt.Sprintf("v%d", id))
	case 5:
		// a value that looks like a key of the alphabet (concatenation ambiguity, C11)
		k := pick(rawKeys, id)
		if len(k) == 0 {
			return []byte("k")
		}
		return k
	case 6:
		b := make([]byte, 300+umod(id, 900))
		for i := range b {
			b[i] = byte(id) + byte(i*7)
		}
		return b
	default:
		return []byte(fmt.Sprintf("value-%d-%s", id, strings.Repeat("x", umod(id, 40))))
	}
}

// scribble overwrites a buffer after it was handed to the code under test ("it is safe to modify
// the contents of the arguments after Put returns").
func scribble(b []byte) {
	for i := range b {
		b[i] ^= 0xa5
	}
}

// ---- small helpers -----------------------------------------------------------------------------

func short(b []byte) string {
	if b == nil {
		return "nil"
	}
	if len(b) <= 12 {
		return fmt.Sprintf("%q", b)
	}
	h := sha256.Sum256(b)
	return fmt.Sprintf("%q..(%d,%x)", b[:6], len(b), h[:4])
}

func sortedKeys(m map[string][]byte) []string {
	ks := make([]string, 0, len(m))
	for k := range m {
		ks = append(ks, k)
	}
	sort.Strings(ks)
	return ks
}

type kv struct{ k, v []byte }

func kvDigest(list []kv) []byte {
	h := sha256.New()
	var l [8]byte
	for _, e := range list {
		binary.LittleEndian.PutUint64(l[:], uint64(len(e.k)))
		h.Write(l[:])
		h.Write(e.k)
		binary.LittleEndian.PutUint64(l[:], uint64(len(e.v)))
		h.Write(l[:])
		h.Write(e.v)
	}
	return h.Sum(nil)[:8]
}

func kvEqual(a, b []kv) bool {
	if len(a) != len(b) {
		return false
	}
	for i := range a {
		if !bytes.Equal(a[i].k, b[i].k) || !bytes.Equal(a[i].v, b[i].v) {
			return false
		}
	}
	return true
}

func kvString(list []kv) string {
	var b strings.Builder
	b.WriteString("[")
	for i, e := range list {
		if i > 0 {
			b.WriteString(" ")
		}
		if i >= 24 {
			fmt.Fprintf(&b, "...(%d)", len(list))
			break
		}
		fmt.Fprintf(&b, "%s=%s", short(e.k), short(e.v))
	}
	b.WriteString("]")
	return b.String()
}

func hasPrefix(k string, p []byte) bool { return strings.HasPrefix(k, string(p)) }

// sigAcc accumulates "what happened" in a run for the distinct_nontrivial signature.
type sigAcc struct{ h []byte }

func (s *sigAcc) add(format string, a ...interface{}) {
	x := sha256.New()
	x.Write(s.h)
	fmt.Fprintf(x, format, a...)
	s.h = x.Sum(nil)
}

// weighted picks an index according to integer weights.
func weighted(rng *kernel.RNG, w []int) int {
	t := 0
	for _, x := range w {
		t += x
	}
	if t <= 0 {
		return 0
	}
	r := rng.Intn(t)
	for i, x := range w {
		if r < x {
			return i
		}
		r -= x
	}
	return len(w) - 1
}

// guard runs f and converts a panic of the code under test into a violation of prop.
func guard(run *kernel.Run, prop, what string, f func()) (ok bool) {
	defer func() {
		if e := recover(); e != nil {
			buf := make([]byte, 32<<10)
			buf = buf[:runtime.Stack(buf, false)]
			if !panicInPoly(string(buf)) {
				panic(fmt.Sprintf("harness panic: %v\n%s", e, buf)) // our own bug: exit 2, never a verdict
			}
			run.Fail(prop, "panic-in-poly", "%s panicked: %v", what, e)
			ok = false
		}
	}()
	f()
	return true
}

// panicInPoly reports whether the function that panicked (first frame below the runtime's panic
// frames) belongs to poly or one of its dependencies rather than to the harness.
func panicInPoly(stack string) bool {
	lines := strings.Split(stack, "\n")
	seenPanic := false
	for _, l := range lines {
		if strings.HasPrefix(l, "\t") || l == "" || strings.HasPrefix(l, "goroutine ") {
			continue
		}
		if strings.HasPrefix(l, "panic(") {
			seenPanic = true
			continue
		}
		if !seenPanic {
			continue
		}
		if strings.HasPrefix(l, "runtime.") {
			continue
		}
		return !strings.HasPrefix(l, "polysim/")
	}
	return false
}
