package lceth

import (
	"github.com/polynetwork/poly/common"
	ccom "github.com/polynetwork/poly/native/service/cross_chain_manager/common"
	"github.com/polynetwork/poly/native/service/governance/side_chain_manager"

	"polysim/chain"
)

// sview is contract state as seen at one point of a block (e1.View implements it; the oracles
// are run from Harness.ExecInspect, i.e. before the block is committed, where a transaction's
// Pre/Post views are exact).
type sview interface {
	Get(contract common.Address, key ...[]byte) []byte
}

type ckey struct {
	c common.Address
	k []byte
}

func sideChainOf(v sview, id uint64) *side_chain_manager.SideChain {
	raw := v.Get(chain.SideChainManager, []byte(side_chain_manager.SIDE_CHAIN), le64(id))
	if raw == nil {
		return nil
	}
	sc := new(side_chain_manager.SideChain)
	if sc.Deserialization(common.NewZeroCopySource(raw)) != nil {
		return nil
	}
	return sc
}

func keySideChain(id uint64) ckey {
	return ckey{chain.SideChainManager, append([]byte(side_chain_manager.SIDE_CHAIN), le64(id)...)}
}
func keyBlacked(id uint64) ckey {
	return ckey{chain.CrossChain, append([]byte(ccom.BLACKED_CHAIN), le64(id)...)}
}
func keyDone(src uint64, ccid []byte) ckey {
	return ckey{chain.CrossChain, append(append([]byte(ccom.DONE_TX), le64(src)...), ccid...)}
}
func keyRequest(dst uint64, relay []byte) ckey {
	return ckey{chain.CrossChain, append(append([]byte(ccom.REQUEST), le64(dst)...), relay...)}
}

func blackedIn(v sview, id uint64) bool { k := keyBlacked(id); return v.Get(k.c, k.k) != nil }
func doneIn(v sview, src uint64, ccid []byte) bool {
	k := keyDone(src, ccid)
	return v.Get(k.c, k.k) != nil
}
func requestIn(v sview, dst uint64, relay []byte) []byte {
	k := keyRequest(dst, relay)
	return v.Get(k.c, k.k)
}
