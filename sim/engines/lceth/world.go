package lceth

import (
	"fmt"
	"math/big"
	"runtime/debug"
	"strings"
	"time"

	"github.com/polynetwork/poly/core/types"
	hscom "github.com/polynetwork/poly/native/service/header_sync/common"
	eth "github.com/polynetwork/poly/native/service/header_sync/eth"
	"github.com/polynetwork/poly/native/service/utils"

	"polysim/chain"
	"polysim/engines/e1"
	"polysim/kernel"
)

const (
	srcChainID = uint64(2)  // the simulated Ethereum-like source chain
	dstChainID = uint64(3)  // a registered destination chain
	badChainID = uint64(11) // never registered
	// Header timestamps live before the fake clock's start (2000-01-01) so that the longest
	// slow branch (24 x 1300 s) is still in the past.
	rootLead = 60000
)

// pend is one queued transaction plus what the plan meant by it.
type pend struct {
	tx    *types.Transaction
	kind  string // "genesis" | "sync" | "import"
	nodes []*Node
	imp   *impCase
	rep   *c20case
	desc  string
}

// world bundles harness, simulated chain and reference tracker of one run.
type world struct {
	run   *kernel.Run
	h     *e1.Harness
	c     *Chain
	t     *Tracker
	bw    uint64
	start int64
	ext   []*Node // extendable (honest) nodes in creation order; [0] = root
	q     []*pend
	onImp func(tr *e1.TxTrace, pre, post sview, p *pend)
	nTx   int
	nJudged int // transactions judged by the property oracle
	afterRestart func()
}

// rootHeight maps a plan selector to a trust-root height around the fork boundaries of the
// configured network.
func rootHeight(net uint32, sel int64) uint64 {
	c := NewChain(net)
	var opts []uint64
	for d := uint64(0); d <= 6; d++ {
		opts = append(opts, c.London-d)
	}
	opts = append(opts, c.London+1, c.London+500000, 100, c.London-3000000)
	if c.Arrow != 0 {
		for d := uint64(0); d <= 6; d++ {
			opts = append(opts, c.Arrow-d)
		}
		opts = append(opts, c.Arrow+1, c.Arrow+700000)
	}
	return opts[mod(sel, int64(len(opts)))]
}

// newWorld creates the harness, the simulated chain's trust root and accounts, registers both
// side chains. Call inside the bubble.
func newWorld(run *kernel.Run) *world {
	p := run.Plan
	net := uint32(p.C("net", 77))
	h, err := e1.NewHarness(run, int(p.C("n", 4)), int(p.C("fol", 0)), net, uint32(p.C("maxview", 40)))
	if err != nil {
		panic(err)
	}
	w := &world{run: run, h: h, c: NewChain(net), bw: uint64(p.C("bw", 1)), start: time.Now().Unix()}
	w.c.InitAccounts(p.Seed, 2+int(mod(p.C("filler", 3), 6)))
	exp := uint(mod(p.C("rootexp", 50), 30)) + 30 // 2^30 .. 2^59
	diff := new(big.Int).Lsh(big.NewInt(1), exp)
	diff.Add(diff, big.NewInt(mod(p.C("rootsalt", 0), 1<<20)))
	gas := uint64(8_000_000 + mod(p.C("rootgas", 0), 22_000_000))
	w.c.MakeRoot(rootHeight(net, p.C("rootsel", 0)), diff, uint64(w.start-rootLead), gas, mod(p.C("rootsalt", 0), 251))
	w.ext = []*Node{w.c.Nodes[0]}
	w.t = NewTracker(run, srcChainID, w.c)
	return w
}

func (w *world) close() { w.h.Close() }

func (w *world) register() {
	if err := w.h.RegisterChain(srcChainID, utils.ETH_ROUTER, "sim-eth", w.bw, w.c.Accts[0].Addr, nil); err != nil {
		panic(fmt.Sprintf("register source chain: %v", err))
	}
	if err := w.h.RegisterChain(dstChainID, utils.ETH_ROUTER, "sim-dst", 1, []byte{0xdd, 0x01}, nil); err != nil {
		panic(fmt.Sprintf("register destination chain: %v", err))
	}
}

// addHeader creates the node of one "hdr" step: [parentSel, kind, dt, flags, gasSel, limSel, salt].
func (w *world) addHeader(st kernel.Step, deps []int) *Node {
	parent := w.ext[mod(st.Arg(0), int64(len(w.ext)))]
	kind := int(mod(st.Arg(1), numKinds))
	sp := Spec{Dt: uint64(1 + mod(st.Arg(2)-1, 5000)), Uncles: st.Arg(3)&1 == 1, GasSel: st.Arg(4), LimSel: st.Arg(5), Salt: mod(st.Arg(6), 1<<15)}
	if kind == kindFuture {
		sp.AbsTime = uint64(w.start + 16 + mod(st.Arg(2), 4000))
		sp.Dt = 1
	}
	if kind == kindBaseFeeWrong && !w.c.isLondonNum(parent.H.Number.Uint64()+1) && st.Arg(3)&2 == 0 {
		kind = kindDiffPlus1
	}
	n := w.c.Add(parent, kind, sp)
	if !byz(kind) {
		n.OwnDeps = deps
		w.ext = append(w.ext, n)
	}
	return n
}

func (w *world) syncTx(nodes []*Node) *pend {
	var hs [][]byte
	desc := "sync["
	for i, n := range nodes {
		hs = append(hs, n.JSON)
		if i > 0 {
			desc += " "
		}
		desc += fmt.Sprintf("#%d", n.Idx)
	}
	rel := w.h.User(1 + w.nTx%3)
	w.nTx++
	tx := w.h.Signed(chain.HeaderSync, hscom.SYNC_BLOCK_HEADER, chain.Args(&hscom.SyncBlockHeaderParam{ChainID: srcChainID, Address: rel.Address, Headers: hs}), rel)
	return &pend{tx: tx, kind: "sync", nodes: nodes, desc: desc + "]"}
}

func (w *world) genesisTx(hdr []byte) *types.Transaction {
	return w.h.Operator(chain.HeaderSync, hscom.SYNC_GENESIS_HEADER, chain.Args(&hscom.SyncGenesisHeaderParam{ChainID: srcChainID, GenesisHeader: hdr}))
}

// flush commits the queued transactions in one block and runs the oracles on each observed
// transition. false = stop the run.
func (w *world) flush() bool {
	if len(w.q) == 0 {
		return true
	}
	q := w.q
	w.q = nil
	txs := make([]*types.Transaction, len(q))
	for i, p := range q {
		txs[i] = p.tx
	}
	now := time.Now().Unix()
	// the oracles run before the block is committed: there Pre/Post are exact per-transaction states
	inspect := func(traces []*e1.TxTrace) {
		if len(traces) != len(q) {
			panic(fmt.Sprintf("lceth: %d traces for %d transactions", len(traces), len(q)))
		}
		for i, tr := range traces {
			p := q[i]
			if tr.Tx.Hash() != p.tx.Hash() {
				panic("lceth: trace order differs from submission order")
			}
			switch p.kind {
			case "genesis":
				w.t.OnTx(tr, tr.Pre, tr.Post, nil, true, now)
			case "sync":
				w.nJudged++
				w.t.OnTx(tr, tr.Pre, tr.Post, p.nodes, false, now)
				if tr.OK {
					w.run.Probe("sync_tx_accepted")
				} else {
					w.run.Probe("sync_tx_rejected")
				}
			case "import":
				w.onImp(tr, tr.Pre, tr.Post, p)
			}
			w.run.Logf("%s ok=%v writes=%d %s", p.desc, tr.OK, len(tr.Writes), w.t.Digest(tr.Post))
			w.run.State([]byte(w.t.Digest(tr.Post)))
			w.run.Steps++
			if w.run.Failed() {
				return
			}
		}
	}
	if !w.guarded(func() bool { _, ok := w.h.ExecInspect(inspect, txs...); return ok }, q) {
		return false
	}
	return !w.run.Failed()
}

// guarded runs one block; a panic raised inside poly's contract code while executing it is a
// violation (a transaction must fail cleanly, never crash the node), anything else is harness
// trouble and is re-raised.
func (w *world) guarded(f func() bool, q []*pend) (ok bool) {
	defer func() {
		if e := recover(); e != nil {
			st := string(debug.Stack())
			if !strings.Contains(st, "/native/service/") {
				panic(fmt.Sprintf("%v\n%s", e, st))
			}
			prop, where := "C27", "header-sync"
			if strings.Contains(st, "/native/service/cross_chain_manager/") {
				prop, where = "C23", "deposit-import"
			}
			var descs []string
			for _, p := range q {
				descs = append(descs, p.desc)
			}
			w.run.Fail(prop, where+"-panicked", "executing a block with %v panicked inside poly: %v", descs, e)
			ok = false
		}
	}()
	return f()
}

// installRoot registers the chains and installs the trust root.
func (w *world) installRoot() bool {
	w.register()
	w.q = append(w.q, &pend{tx: w.genesisTx(w.c.Nodes[0].JSON), kind: "genesis", desc: "genesis"})
	if !w.flush() {
		return false
	}
	if !w.t.Stored(w.c.Nodes[0]) {
		panic("lceth: trust root installation failed")
	}
	return true
}

func withSeal(f func()) {
	eth.SkipSealHook = func() bool { return true }
	defer func() { eth.SkipSealHook = nil }()
	f()
}

// inBubble runs f inside the fake-clock bubble with the seal hook on. A panic of f is caught
// inside the bubble and re-raised outside it: kernel.InBubble skips its final sleep when f
// panics, goleveldb's helper goroutines are then still parked when the bubble ends, and
// synctest's "deadlock" panic (raised in the sub-test goroutine, hence fatal) would replace
// the real message.
func inBubble(f func()) {
	var perr interface{}
	kernel.InBubble(func() {
		defer func() {
			if e := recover(); e != nil {
				perr = fmt.Sprintf("%v\n%s", e, debug.Stack())
			}
		}()
		withSeal(f)
	})
	if perr != nil {
		panic(perr)
	}
}

