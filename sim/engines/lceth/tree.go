package lceth

import (
	"bytes"
	"encoding/binary"

	"github.com/ethereum/go-ethereum/crypto"
	"github.com/polynetwork/poly/common"
	ccom "github.com/polynetwork/poly/native/service/cross_chain_manager/common"

	"polysim/kernel"
)

func stepKind(st kernel.Step) int { return int(mod(st.Arg(1), numKinds)) }

// depositMsg is the cross-chain message of deposit i: a serialized MakeTxParam, as the source
// chain's cross-chain contract would have hashed into its storage.
func depositMsg(seed uint64, i int, toChain uint64, salt int64) []byte {
	return depositMsgID(seed, i, i, toChain, salt)
}

// depositMsgID: the message of deposit i carrying the cross-chain id of deposit idOf (idOf != i
// models a source contract that emits two different messages under one id).
func depositMsgID(seed uint64, idOf, i int, toChain uint64, salt int64) []byte {
	id := crypto.Keccak256(binary.BigEndian.AppendUint64(binary.BigEndian.AppendUint64([]byte("ccid"), seed), uint64(idOf)))
	if idOf != i {
		salt ^= 0x5a5a + int64(i)<<4
	}
	mp := &ccom.MakeTxParam{
		TxHash:              crypto.Keccak256(id, []byte{byte(i)}),
		CrossChainID:        id,
		FromContractAddress: []byte{0xf0, byte(i), byte(salt)},
		ToChainID:           toChain,
		ToContractAddress:   crypto.Keccak256([]byte{byte(i)})[:20],
		Method:              "unlock",
		// the last 8 bytes of Args (= of the whole encoding) are a counter the grinder may vary
		Args: append(crypto.Keccak256([]byte{0xa5, byte(i), byte(salt), byte(salt >> 8)})[:int(8+mod(salt, 24))], make([]byte, 8)...),
	}
	sink := common.NewZeroCopySink(nil)
	mp.Serialization(sink)
	return sink.Bytes()
}

// grind varies the trailing counter of msg (deterministically: 0, 1, 2, ...) until the
// Keccak-256 of the message satisfies pred; false if the cap is reached (msg then keeps the
// last counter tried).
func grind(msg []byte, max uint64, pred func(h []byte) bool) bool {
	for c := uint64(0); c < max; c++ {
		binary.BigEndian.PutUint64(msg[len(msg)-8:], c)
		if pred(crypto.Keccak256(msg)) {
			return true
		}
	}
	return false
}

// deposit kinds (third argument of a "dep" step, modulo depKinds)
const (
	depBadDest   = 7  // message addressed to an unregistered chain
	depShort1    = 8  // the slot holds a 1-byte non-hash value; the message is ground so that its hash ENDS in it
	depShort2    = 9  // same with a 2-byte value
	depShortEdge = 10 // same with an edge value: 0x00, 0x0100, 0x80, 0x7f
	depLeadZero  = 11 // genuine deposit whose message hash starts with a zero byte (stored as 31 bytes)
	depTwin      = 12 // a second, different message carrying the cross-chain id of an earlier deposit (own slot, fully valid proof)
	depKinds     = 13
)

// buildTree creates every node of the plan ("hdr" steps, in order) with the deposits the plan
// puts into their blocks ("dep" steps: [nodeSel, acct, msgKind, salt]) and seals them.
func (w *world) buildTree(steps []kernel.Step) {
	next := 1
	for _, st := range steps {
		if st.Op == "hdr" && !byz(stepKindResolved(w, st)) {
			next++
		}
	}
	nExt := next
	depsOf := map[int][]int{}
	for _, st := range steps {
		if st.Op != "dep" {
			continue
		}
		e := int(mod(st.Arg(0), int64(nExt)))
		to := dstChainID
		kind := mod(st.Arg(2), depKinds)
		if kind == depBadDest {
			to = badChainID
		}
		d := &Deposit{Idx: len(w.c.Deps), Acct: int(mod(st.Arg(1), 2)), Slot: slotOf(len(w.c.Deps)), Msg: depositMsg(w.run.Plan.Seed, len(w.c.Deps), to, st.Arg(3)), To: to, TwinOf: -1}
		switch kind {
		case depTwin:
			if d.Idx > 0 {
				first := w.c.Deps[mod(st.Arg(3), int64(d.Idx))]
				d.Msg = depositMsgID(w.run.Plan.Seed, first.Idx, d.Idx, first.To, st.Arg(3))
				d.To, d.TwinOf = first.To, first.Idx
			}
		case depShort1, depShort2, depShortEdge:
			// a slot of the CCMC that does not hold a message hash at all (a flag, a counter ...)
			d.Acct = 0
			salt := st.Arg(3)
			switch kind {
			case depShort1:
				d.Short = []byte{byte(1 + mod(salt, 255))}
			case depShort2:
				d.Short = []byte{byte(1 + mod(salt, 255)), byte(salt >> 8)}
			default:
				d.Short = [][]byte{{0x00}, {0x01, 0x00}, {0x80}, {0x7f}}[mod(salt, 4)]
			}
			max := uint64(8192)
			if len(d.Short) == 2 {
				max = 150000
			}
			short := d.Short
			d.Ground = grind(d.Msg, max, func(h []byte) bool { return bytes.HasSuffix(h, short) })
		case depLeadZero:
			d.Acct = 0
			d.Ground = grind(d.Msg, 8192, func(h []byte) bool { return h[0] == 0 })
			d.LeadZero = d.Ground
		}
		w.c.Deps = append(w.c.Deps, d)
		depsOf[e] = append(depsOf[e], d.Idx)
	}
	root := w.c.Nodes[0]
	root.OwnDeps = depsOf[0]
	for _, di := range root.OwnDeps {
		w.c.Deps[di].Node = 0
	}
	root.State = w.c.BuildState(root.OwnDeps, 1)
	w.c.Seal(root)
	for _, st := range steps {
		if st.Op != "hdr" || len(w.c.Nodes) >= 24 {
			continue
		}
		n := w.addHeader(st, nil)
		if !byz(n.Kind) {
			n.OwnDeps = depsOf[len(w.ext)-1]
			for _, di := range n.OwnDeps {
				w.c.Deps[di].Node = n.Idx
			}
			n.State = w.c.BuildState(append(append([]int(nil), n.Parent.State.deps...), n.OwnDeps...), uint64(n.Idx)+2)
		}
		w.c.Seal(n)
		w.c.selfCheck(n)
	}
	w.t.Index()
}

// stepKindResolved is the kind a step will really get (addHeader may turn a base-fee mutation
// before the fork into a difficulty mutation; both are Byzantine, so the count is unaffected).
func stepKindResolved(w *world, st kernel.Step) int { return stepKind(st) }
