package lceth

import (
	"encoding/binary"

	"github.com/ethereum/go-ethereum/crypto"
	"github.com/polynetwork/poly/common"
	ccom "github.com/polynetwork/poly/native/service/cross_chain_manager/common"

	"polysim/kernel"
)

func stepKind(st kernel.Step) int { return int(mod(st.Arg(1), numKinds)) }

// depositMsg is the cross-chain message of deposit i: a serialized MakeTxParam, as the source
// chain's cross-chain contract would have hashed into its storage.
func depositMsg(seed uint64, i int, toChain uint64, salt int64) []byte {
	id := crypto.Keccak256(binary.BigEndian.AppendUint64(binary.BigEndian.AppendUint64([]byte("ccid"), seed), uint64(i)))
	mp := &ccom.MakeTxParam{
		TxHash:              crypto.Keccak256(id),
		CrossChainID:        id,
		FromContractAddress: []byte{0xf0, byte(i), byte(salt)},
		ToChainID:           toChain,
		ToContractAddress:   crypto.Keccak256([]byte{byte(i)})[:20],
		Method:              "unlock",
		Args:                crypto.Keccak256([]byte{0xa5, byte(i), byte(salt), byte(salt >> 8)})[:int(8+mod(salt, 24))],
	}
	sink := common.NewZeroCopySink(nil)
	mp.Serialization(sink)
	return sink.Bytes()
}

// buildTree creates every node of the plan ("hdr" steps, in order) with the deposits the plan
// puts into their blocks ("dep" steps: [nodeSel, acct, msgKind, salt]) and seals them.
func (w *world) buildTree(steps []kernel.Step) {
	next := 1
	for _, st := range steps {
		if st.Op == "hdr" && !byz(stepKindResolved(w, st)) {
			next++
		}
	}
	nExt := next
	depsOf := map[int][]int{}
	for _, st := range steps {
		if st.Op != "dep" {
			continue
		}
		e := int(mod(st.Arg(0), int64(nExt)))
		to := dstChainID
		if mod(st.Arg(2), 8) == 7 {
			to = badChainID
		}
		d := &Deposit{Idx: len(w.c.Deps), Acct: int(mod(st.Arg(1), 2)), Slot: slotOf(len(w.c.Deps)), Msg: depositMsg(w.run.Plan.Seed, len(w.c.Deps), to, st.Arg(3))}
		w.c.Deps = append(w.c.Deps, d)
		depsOf[e] = append(depsOf[e], d.Idx)
	}
	root := w.c.Nodes[0]
	root.OwnDeps = depsOf[0]
	for _, di := range root.OwnDeps {
		w.c.Deps[di].Node = 0
	}
	root.State = w.c.BuildState(root.OwnDeps, 1)
	w.c.Seal(root)
	for _, st := range steps {
		if st.Op != "hdr" || len(w.c.Nodes) >= 24 {
			continue
		}
		n := w.addHeader(st, nil)
		if !byz(n.Kind) {
			n.OwnDeps = depsOf[len(w.ext)-1]
			for _, di := range n.OwnDeps {
				w.c.Deps[di].Node = n.Idx
			}
			n.State = w.c.BuildState(append(append([]int(nil), n.Parent.State.deps...), n.OwnDeps...), uint64(n.Idx)+2)
		}
		w.c.Seal(n)
		w.c.selfCheck(n)
	}
	w.t.Index()
}

// stepKindResolved is the kind a step will really get (addHeader may turn a base-fee mutation
// before the fork into a difficulty mutation; both are Byzantine, so the count is unaffected).
func stepKindResolved(w *world, st kernel.Step) int { return stepKind(st) }
