// Package lceth is the polysim engine for poly's Ethereum proof-of-work light client
// (native/service/header_sync/eth) and the EVM deposit-proof verification built on it
// (native/service/cross_chain_manager/eth): a simulated forking PoW chain with a simulated EVM
// state, checks C27 and C23, and the lc.Driver for the ETH router.
package lceth

import (
	"encoding/json"
	"fmt"
	"math/big"
	_ "unsafe" // go:linkname (generator reuses the repo's own unexported difficulty calculators)

	ecom "github.com/ethereum/go-ethereum/common"
	"github.com/ethereum/go-ethereum/core/types"
	"github.com/polynetwork/poly/common/config"
	eth "github.com/polynetwork/poly/native/service/header_sync/eth"

	"polysim/kernel"
)

// The header generator must never produce an "honest" header that the light client refuses
// because a header-rule formula was changed in /repo (that is C28's business, not C27's/C23's).
// The base-fee and gas-limit rules are exported by the eth package and used directly; the two
// difficulty calculators are unexported, so they are reached by symbol name. If a checkout
// renames them the engine does not link (exit 2: build trouble, never a verdict).

//go:linkname repoDifficultyCalculator github.com/polynetwork/poly/native/service/header_sync/eth.difficultyCalculator
func repoDifficultyCalculator(time *big.Int, parent *eth.Header) *big.Int

//go:linkname repoMakeDifficultyCalculator github.com/polynetwork/poly/native/service/header_sync/eth.makeDifficultyCalculator
func repoMakeDifficultyCalculator(bombDelay *big.Int) func(time uint64, parent *eth.Header) *big.Int

// Bomb delays of EIP-3554 (London) and EIP-4345 (Arrow Glacier).
var (
	londonBombDelay = big.NewInt(9_700_000)
	arrowBombDelay  = big.NewInt(10_700_000)
	two64           = new(big.Int).Lsh(big.NewInt(1), 64)
)

// Node kinds. Kind 0 and kindFuture are honest headers (the latter merely dated ahead of the
// fake clock at generation time); the others are Byzantine: one rule broken, everything else
// as an honest miner would fill it in.
const (
	kindHonest = iota
	kindFuture
	kindHeightPlus2
	kindHeightSame
	kindHeightWrap // Number = 2^64 + parent+1 (JSON carries a 256-bit quantity)
	kindDiffPlus1
	kindTimeNotAfterParent
	kindGasUsedOverLimit
	kindExtraTooLong
	kindGasLimitJump
	kindBaseFeeWrong
	numKinds
)

var kindNames = [...]string{"honest", "future", "height+2", "height+0", "height+2^64", "difficulty+1", "time<=parent", "gasUsed>gasLimit", "extra>32", "gasLimit-jump", "baseFee-wrong"}

func byz(kind int) bool { return kind >= kindHeightPlus2 }

// Spec is what the plan says about one header.
type Spec struct {
	Dt      uint64 // seconds after the parent (>= 1)
	Uncles  bool   // non-empty uncle hash (raises the child's difficulty)
	GasSel  int64  // selects gasUsed relative to the gas target
	LimSel  int64  // selects the gas-limit move inside the allowed band
	Salt    int64  // extra data / coinbase variety (distinguishes siblings)
	AbsTime uint64 // kindFuture: absolute timestamp (if later than parent+Dt)
}

// Node is one header of the simulated block tree.
type Node struct {
	Idx      int
	Parent   *Node
	Kind     int
	H        *eth.Header
	Hash     ecom.Hash
	JSON     []byte
	TD       *big.Int // reference total difficulty: root's own difficulty + every difficulty on the path
	Depth    int
	Children []*Node
	State    *State
	OwnDeps  []int
}

func (n *Node) Num() *big.Int { return n.H.Number }

// Chain is the simulated Ethereum-like chain (a tree of headers) as seen from network `Net`.
type Chain struct {
	Net    uint32
	London uint64
	Arrow  uint64
	Nodes  []*Node // [0] is the trust root
	Deps   []*Deposit
	Accts  []*Account // [0] CCMC, [1] another contract, rest filler
}

func NewChain(net uint32) *Chain {
	return &Chain{Net: net, London: config.GetEth1559Height(net), Arrow: config.GetEth4345Height(net)}
}

func (c *Chain) isLondonNum(n uint64) bool { return n >= c.London }
func (c *Chain) isArrowNum(n uint64) bool  { return c.Arrow != 0 && n >= c.Arrow }

// headerIsLondon mirrors how the fork applies to a header of this chain: by number, or
// because it already carries a base fee.
func (c *Chain) headerIsLondon(h *eth.Header) bool {
	return h.BaseFee != nil || c.isLondonNum(h.Number.Uint64())
}

// ExpectedDifficulty applies the fork schedule of the configured network and the repo's own
// calculators.
func (c *Chain) ExpectedDifficulty(number uint64, time uint64, parent *eth.Header) *big.Int {
	switch {
	case c.isArrowNum(number):
		return repoMakeDifficultyCalculator(arrowBombDelay)(time, parent)
	case c.isLondonNum(number):
		return repoMakeDifficultyCalculator(londonBombDelay)(time, parent)
	default:
		return repoDifficultyCalculator(new(big.Int).SetUint64(time), parent)
	}
}

var otherUncleHash = ecom.HexToHash("0x2b32db6c2c0a6235fb1397e8225ea85e0f0e6e8c7b126d0016ccbde0e667151e")

// MakeRoot creates the trust root at the given height.
func (c *Chain) MakeRoot(height uint64, diff *big.Int, time uint64, gasLimit uint64, salt int64) *Node {
	h := &eth.Header{
		UncleHash:   types.EmptyUncleHash,
		Coinbase:    ecom.BytesToAddress([]byte{0xc0, byte(salt)}),
		TxHash:      types.EmptyRootHash,
		ReceiptHash: types.EmptyRootHash,
		Difficulty:  new(big.Int).Set(diff),
		Number:      new(big.Int).SetUint64(height),
		GasLimit:    gasLimit,
		GasUsed:     gasLimit / 3,
		Time:        time,
		Extra:       []byte(fmt.Sprintf("root-%d", salt)),
	}
	if c.isLondonNum(height) {
		h.BaseFee = big.NewInt(1_000_000_000 + salt%1000)
	}
	n := &Node{Idx: 0, Kind: kindHonest, H: h}
	c.Nodes = []*Node{n}
	return n
}

// Seal finishes a node after its state root is known: hash, JSON, reference TD.
func (c *Chain) Seal(n *Node) {
	if n.State != nil {
		n.H.Root = n.State.Root
	}
	n.Hash = n.H.Hash()
	b, err := json.Marshal(n.H)
	if err != nil {
		panic(err)
	}
	n.JSON = b
	if n.Parent == nil {
		n.TD = new(big.Int).Set(n.H.Difficulty)
	} else {
		n.TD = new(big.Int).Add(n.Parent.TD, n.H.Difficulty)
		n.Depth = n.Parent.Depth + 1
	}
}

// Add builds a child of parent according to spec and kind (not yet sealed).
func (c *Chain) Add(parent *Node, kind int, sp Spec) *Node {
	p := parent.H
	if sp.Dt == 0 {
		sp.Dt = 1
	}
	claimed := new(big.Int).Add(p.Number, big.NewInt(1))
	switch kind {
	case kindHeightPlus2:
		claimed.Add(claimed, big.NewInt(1))
	case kindHeightSame:
		claimed.Sub(claimed, big.NewInt(1))
	case kindHeightWrap:
		claimed.Add(claimed, two64)
	}
	num64 := new(big.Int).Mod(claimed, two64).Uint64() // the fork schedule looks at 64 bits
	h := &eth.Header{
		ParentHash:  parent.Hash,
		UncleHash:   types.EmptyUncleHash,
		Coinbase:    ecom.BytesToAddress([]byte{0xc1, byte(sp.Salt), byte(sp.Salt >> 8)}),
		TxHash:      types.EmptyRootHash,
		ReceiptHash: types.EmptyRootHash,
		Number:      claimed,
		Time:        p.Time + sp.Dt,
		Extra:       []byte(fmt.Sprintf("n%d-%d", len(c.Nodes), sp.Salt%97)),
	}
	if kind == kindFuture && sp.AbsTime > h.Time {
		h.Time = sp.AbsTime
	}
	if sp.Uncles {
		h.UncleHash = otherUncleHash
	}
	london := c.isLondonNum(num64)
	// gas limit: inside the band around the parent's (doubled at the fork block)
	base := p.GasLimit
	if london && !c.headerIsLondon(p) {
		base = p.GasLimit * 2
	}
	band := base / 1024 // |limit - base| must stay below this
	h.GasLimit = base
	if band > 1 {
		w := int64(2*band - 1)
		d := mod(sp.LimSel, w) - int64(band-1)
		h.GasLimit = uint64(int64(base) + d)
	}
	if h.GasLimit < 5000 {
		h.GasLimit = 5000
	}
	target := h.GasLimit
	if london {
		target = h.GasLimit / 2
	}
	switch mod(sp.GasSel, 6) {
	case 0:
		h.GasUsed = 0
	case 1:
		h.GasUsed = target
	case 2:
		h.GasUsed = h.GasLimit
	case 3:
		h.GasUsed = target / 2
	case 4:
		h.GasUsed = target + (h.GasLimit-target)/2
	default:
		h.GasUsed = uint64(mod(sp.GasSel/6, int64(h.GasLimit)+1))
	}
	if london {
		h.BaseFee = eth.CalcBaseFee(p)
	}
	h.Difficulty = c.ExpectedDifficulty(num64, h.Time, p)
	switch kind {
	case kindDiffPlus1:
		h.Difficulty = new(big.Int).Add(h.Difficulty, big.NewInt(1))
	case kindTimeNotAfterParent:
		h.Time = p.Time
	case kindGasUsedOverLimit:
		h.GasUsed = h.GasLimit + 1
	case kindExtraTooLong:
		h.Extra = append(h.Extra, make([]byte, 33)...)
	case kindGasLimitJump:
		h.GasLimit = base + band + 7
	case kindBaseFeeWrong:
		if h.BaseFee != nil {
			h.BaseFee = new(big.Int).Add(h.BaseFee, big.NewInt(1))
		} else {
			h.BaseFee = big.NewInt(7) // a base fee before the fork height
		}
	}
	n := &Node{Idx: len(c.Nodes), Parent: parent, Kind: kind, H: h}
	parent.Children = append(parent.Children, n)
	c.Nodes = append(c.Nodes, n)
	return n
}

// selfCheck runs the repo's exported header rules over an honest node: a generator that
// disagrees with them is harness trouble, not a finding.
func (c *Chain) selfCheck(n *Node) {
	if n.Parent == nil || byz(n.Kind) {
		return
	}
	var err error
	if c.headerIsLondon(n.H) {
		err = eth.VerifyEip1559Header(n.Parent.H, n.H)
	} else {
		err = eth.VerifyGaslimit(n.Parent.H.GasLimit, n.H.GasLimit)
	}
	if err != nil {
		panic(fmt.Sprintf("lceth generator produced an honest header that breaks the repo's exported rule: %v (node %d number %v)", err, n.Idx, n.H.Number))
	}
}

func mod(a, m int64) int64 {
	if m <= 0 {
		return 0
	}
	a %= m
	if a < 0 {
		a += m
	}
	return a
}

// IsAncestor reports whether a is an ancestor of (or equal to) b.
func IsAncestor(a, b *Node) bool {
	for x := b; x != nil; x = x.Parent {
		if x == a {
			return true
		}
	}
	return false
}

var _ = kernel.NewRNG
