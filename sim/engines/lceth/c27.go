package lceth

import (
	"fmt"
	"time"

	"polysim/kernel"
)

// ---- plan generation shared by C27 and C23 ---------------------------------------------------

// treeGen mirrors the executor's resolution of "hdr" steps so that the generator can aim at
// particular shapes (the executor resolves every selector modulo what exists, so shrunk plans
// stay executable).
type treeGen struct {
	rng   *kernel.RNG
	steps []kernel.Step
	ext   []int // node index of each extendable node ([0] = root)
	kids  map[int]int
	nodes int   // nodes so far including the root
	kinds []int // kind per node index
}

func newTreeGen(rng *kernel.RNG) *treeGen {
	return &treeGen{rng: rng, ext: []int{0}, kids: map[int]int{}, nodes: 1, kinds: []int{kindHonest}}
}

func (g *treeGen) full() bool { return g.nodes >= 24 }

const (
	styleSlow = iota
	styleNormal
	styleFast
	styleAny
)

func (g *treeGen) dt(style int) int64 {
	switch style {
	case styleSlow:
		return int64(900 + g.rng.Intn(400))
	case styleNormal:
		return int64(9 + g.rng.Intn(9))
	case styleFast:
		return int64(1 + g.rng.Intn(8))
	}
	return []int64{1, 5, 8, 9, 13, 17, 18, 30, 100, 899, 900, 1000}[g.rng.Intn(12)]
}

// add appends a header below extendable node e; returns the new node's ext index (-1 for a
// Byzantine node or when the tree is full / the parent already has 3 children).
func (g *treeGen) add(e int, kind int, dt int64, uncles bool) int {
	if g.full() || g.kids[e] >= 3 {
		return -1
	}
	fl := int64(0)
	if uncles {
		fl = 1
	}
	if g.rng.Chance(0.5) {
		fl |= 2
	}
	g.steps = append(g.steps, kernel.Step{Op: "hdr", A: []int64{int64(e), int64(kind), dt, fl, int64(g.rng.Intn(60)), int64(g.rng.Intn(1 << 20)), int64(g.rng.Intn(1 << 15))}})
	g.kids[e]++
	g.nodes++
	g.kinds = append(g.kinds, kind)
	if byz(kind) {
		return -1
	}
	g.ext = append(g.ext, g.nodes-1)
	return len(g.ext) - 1
}

// branch grows a chain of n headers below e in one style; returns the tip's ext index.
func (g *treeGen) branch(e, n, style int, uncles bool) int {
	for i := 0; i < n; i++ {
		x := g.add(e, kindHonest, g.dt(style), uncles)
		if x < 0 {
			return e
		}
		e = x
	}
	return e
}

func (g *treeGen) shape(s int) string {
	rng := g.rng
	switch s {
	case 1: // shorter but heavier: a slow branch of L+1(+x) and a fast branch of L
		t := g.branch(0, rng.Intn(3), styleNormal, false)
		L := 6 + rng.Intn(3)
		g.branch(t, L+1+rng.Intn(2), styleSlow, false)
		g.branch(t, L, styleFast, true)
		return "shorter-heavier"
	case 2: // equal height, heavier
		t := g.branch(0, rng.Intn(4), styleAny, false)
		L := 1 + rng.Intn(6)
		g.branch(t, L, styleNormal, false)
		g.branch(t, L, styleFast, rng.Chance(0.5))
		if rng.Chance(0.5) {
			g.branch(t, L, styleSlow, false)
		}
		return "equal-height"
	case 3: // longer
		t := g.branch(0, rng.Intn(4), styleAny, false)
		a := 1 + rng.Intn(5)
		g.branch(t, a, styleNormal, rng.Chance(0.3))
		g.branch(t, a+1+rng.Intn(3), styleNormal, rng.Chance(0.3))
		return "longer"
	case 4: // ties: siblings with identical difficulty
		t := g.branch(0, rng.Intn(3), styleAny, false)
		for round := 0; round < 1+rng.Intn(3) && !g.full(); round++ {
			dt, un := g.dt(styleAny), rng.Chance(0.3)
			k := 2 + rng.Intn(2)
			var sib []int
			for i := 0; i < k; i++ {
				if x := g.add(t, kindHonest, dt, un); x >= 0 {
					sib = append(sib, x)
				}
			}
			if len(sib) == 0 {
				break
			}
			dt2, un2 := g.dt(styleAny), rng.Chance(0.3)
			ext := rng.Intn(len(sib) + 1)
			for i, s := range sib {
				if i < ext {
					if x := g.add(s, kindHonest, dt2, un2); x >= 0 {
						t = x
					}
				}
			}
			if ext == 0 {
				t = sib[rng.Intn(len(sib))]
			}
		}
		return "ties"
	}
	n := 5 + rng.Intn(18)
	for i := 0; i < n && !g.full(); i++ {
		e := len(g.ext) - 1 - rng.Intn(minInt(len(g.ext), 1+rng.Intn(6)))
		g.add(e, kindHonest, g.dt(styleAny), rng.Chance(0.3))
	}
	return "random"
}

func minInt(a, b int) int {
	if a < b {
		return a
	}
	return b
}

// extras adds random leaves, future-dated and Byzantine headers.
func (g *treeGen) extras(nLeaf, nFuture, nByz int) {
	rng := g.rng
	for i := 0; i < nLeaf; i++ {
		g.add(rng.Intn(len(g.ext)), kindHonest, g.dt(styleAny), rng.Chance(0.3))
	}
	for i := 0; i < nFuture; i++ {
		if x := g.add(rng.Intn(len(g.ext)), kindFuture, int64(rng.Intn(1500)), false); x >= 0 && rng.Chance(0.5) {
			g.add(x, kindHonest, g.dt(styleAny), false)
		}
	}
	for i := 0; i < nByz; i++ {
		kind := kindHeightPlus2 + rng.Intn(numKinds-kindHeightPlus2)
		if rng.Chance(0.45) {
			kind = kindHeightPlus2 + rng.Intn(3) // the height rule is what C27 is about
		}
		g.add(rng.Intn(len(g.ext)), kind, g.dt(styleAny), rng.Chance(0.3))
	}
}

// schedule emits the relayer's submissions for nodes 1..N: "sub" (one transaction carrying
// the listed headers), "blk" (cut a block), "restart", "adv" (move the clock).
func (g *treeGen) schedule(faults map[string]bool) []kernel.Step {
	rng := g.rng
	n := g.nodes - 1
	var out []kernel.Step
	if n == 0 {
		return out
	}
	inBlock, restarts := 0, 0
	cut := func(force bool) {
		if inBlock > 0 && (force || inBlock >= 1+rng.Intn(5)) {
			out = append(out, kernel.Step{Op: "blk"})
			inBlock = 0
			if faults["restart"] && restarts < 2 && rng.Chance(0.06) { // a restart costs ~1 s of real time (LevelDB journal recovery)
				out = append(out, kernel.Step{Op: "restart", A: []int64{int64(rng.Intn(3))}})
				restarts++
			}
		}
	}
	var sent []int64
	emit := func(order []int, maxChunk int) {
		for i := 0; i < len(order); {
			k := 1
			if maxChunk > 1 && rng.Chance(0.4) {
				k = 1 + rng.Intn(maxChunk)
			}
			if i+k > len(order) {
				k = len(order) - i
			}
			var a []int64
			for _, x := range order[i : i+k] {
				a = append(a, int64(x))
				sent = append(sent, int64(x))
			}
			i += k
			if faults["dup"] && rng.Chance(0.15) { // a header twice inside one transaction
				a = append(a, a[rng.Intn(len(a))])
			}
			out = append(out, kernel.Step{Op: "sub", A: a})
			inBlock++
			if faults["dup"] && rng.Chance(0.2) { // the whole transaction again, or an old header
				if rng.Chance(0.5) {
					out = append(out, kernel.Step{Op: "sub", A: append([]int64(nil), a...)})
				} else {
					out = append(out, kernel.Step{Op: "sub", A: []int64{sent[rng.Intn(len(sent))]}})
				}
				inBlock++
			}
			cut(false)
		}
	}
	topo := make([]int, n)
	for i := range topo {
		topo[i] = i + 1
	}
	mode := 0
	if faults["reorder"] {
		mode = 1 + rng.Intn(3)
	}
	switch mode {
	case 0:
		emit(topo, 4)
	case 1: // random permutation first
		p := rng.Perm(n)
		ord := make([]int, n)
		for i, x := range p {
			ord[i] = x + 1
		}
		emit(ord, 3)
	case 2: // newest first
		ord := make([]int, n)
		for i := range ord {
			ord[i] = n - i
		}
		emit(ord, 3)
	case 3: // mostly in order with local swaps and gaps
		ord := append([]int(nil), topo...)
		for i := 0; i+1 < n; i++ {
			if rng.Chance(0.3) {
				j := i + 1 + rng.Intn(minInt(3, n-i-1))
				ord[i], ord[j] = ord[j], ord[i]
			}
		}
		emit(ord, 3)
	}
	hasFuture := false
	for _, k := range g.kinds {
		if k == kindFuture {
			hasFuture = true
		}
	}
	cut(true)
	if hasFuture {
		out = append(out, kernel.Step{Op: "adv", A: []int64{int64(20 + rng.Intn(1600))}})
	}
	if mode != 0 || hasFuture || rng.Chance(0.5) {
		emit(topo, 4) // the relayer catches up in order: everything acceptable gets stored
		cut(true)
	}
	if hasFuture {
		out = append(out, kernel.Step{Op: "adv", A: []int64{1700}})
		emit(topo, 6)
	}
	cut(true)
	return out
}

func baseCfg(rng *kernel.RNG) map[string]int64 {
	net := []int64{1, 2, 77}[rng.Intn(3)]
	exp := int64(44 + rng.Intn(15))
	if rng.Chance(0.15) {
		exp = int64(30 + rng.Intn(14)) // the difficulty bomb dominates
	}
	return map[string]int64{
		"n": int64(4 + rng.Intn(2)), "fol": int64(rng.Intn(2)), "net": net, "maxview": int64(5 + rng.Intn(60)), "reexec": 1,
		"rootsel": int64(rng.Intn(1000)), "rootexp": exp - 30, "rootsalt": int64(rng.Intn(1 << 20)), "rootgas": int64(rng.Intn(22_000_000)),
		"filler": int64(rng.Intn(6)), "bw": 1,
	}
}

func genC27(rng *kernel.RNG, idx int, tier string) *kernel.Plan {
	g := newTreeGen(rng)
	cfg := baseCfg(rng)
	shape := g.shape(idx % 5)
	faults := map[string]bool{"reorder": rng.Chance(0.7), "dup": rng.Chance(0.75), "restart": rng.Chance(0.4)}
	nByz, nFut := 0, 0
	if rng.Chance(0.7) {
		nByz = 1 + rng.Intn(4)
	}
	if rng.Chance(0.3) {
		nFut = 1 + rng.Intn(2)
	}
	g.extras(rng.Intn(4), nFut, nByz)
	cfg["shape"] = int64(idx % 5)
	_ = shape
	steps := append(g.steps, g.schedule(faults)...)
	return &kernel.Plan{Cfg: cfg, Steps: steps}
}

// ---- execution ------------------------------------------------------------------------------

// runSteps executes the non-tree steps of a plan; imp handles "imp" steps (C23).
func (w *world) runSteps(steps []kernel.Step, imp func(st kernel.Step)) bool {
	for i, st := range steps {
		w.run.StepNo = i
		switch st.Op {
		case "sub":
			var nodes []*Node
			for _, a := range st.A {
				nodes = append(nodes, w.c.Nodes[mod(a, int64(len(w.c.Nodes)))])
			}
			if len(nodes) == 0 {
				continue
			}
			seen := map[int]bool{}
			known := 0
			for j, n := range nodes {
				if seen[n.Idx] {
					w.run.Fault("duplicate_header_in_one_tx")
				}
				seen[n.Idx] = true
				if w.t.Stored(n) {
					known++
				}
				if n.Parent != nil && !w.t.Stored(n.Parent) && !(j > 0 && seen[n.Parent.Idx]) {
					w.run.Fault("header_before_its_parent")
				}
				if byz(n.Kind) {
					w.run.Fault("byzantine_header:" + kindNames[n.Kind])
				}
				if n.Kind == kindFuture && int64(n.H.Time) > time.Now().Unix()+15 {
					w.run.Fault("header_dated_in_the_future")
				}
			}
			if known > 0 {
				w.run.Fault("resubmit_known_header")
			}
			w.q = append(w.q, w.syncTx(nodes))
			if len(w.q) >= 6 {
				if !w.flush() {
					return false
				}
			}
		case "imp", "first", "rep", "inv", "idle": // engine-specific steps (C23, C20)
			if imp != nil {
				imp(st)
				if len(w.q) >= 6 && !w.flush() {
					return false
				}
			}
		case "blk":
			if !w.flush() {
				return false
			}
		case "restart":
			if !w.flush() {
				return false
			}
			before := w.t.Digest(w.h.View())
			if err := w.h.Restart(int(mod(st.Arg(0), 3))); err != nil {
				panic(fmt.Sprintf("restart: %v", err))
			}
			w.t.CheckView(w.h.View(), "after restart")
			after := w.t.Digest(w.h.View())
			if before != after {
				w.t.fail("light-client-state-changed-by-restart", "before: %s after: %s", before, after)
			}
			w.run.Logf("restart %d: %s", st.Arg(0), after)
			if w.afterRestart != nil {
				w.afterRestart()
			}
			if w.run.Failed() {
				return false
			}
		case "adv":
			if !w.flush() {
				return false
			}
			d := 1 + mod(st.Arg(0), 7200)
			kernel.Advance(time.Duration(d) * time.Second)
			w.run.SimTimeMs += d * 1000
			w.run.Logf("clock +%ds", d)
		}
	}
	return w.flush()
}

func execC27(run *kernel.Run) {
	inBubble(func() {
		func() {
			w := newWorld(run)
			defer w.close()
			w.buildTree(run.Plan.Steps)
			if !w.installRoot() {
				return
			}
			if !w.runSteps(run.Plan.Steps, nil) {
				return
			}
			w.t.Finish()
			w.summary()
			run.Probes["__evals"] = w.nJudged
		}()
	})
}

// summary records evidence: non-triviality, sample.
func (w *world) summary() {
	run := w.run
	branches, honest, storedHonest := 0, 0, 0
	for _, n := range w.c.Nodes {
		if len(n.Children) == 0 && w.t.Stored(n) {
			branches++
		}
		if !byz(n.Kind) {
			honest++
			if w.t.Stored(n) {
				storedHonest++
			}
		}
	}
	root := w.c.Nodes[0].H.Number.Uint64()
	switch {
	case root < w.c.London && root+6 >= w.c.London:
		run.Probe("tree_straddles_london")
	case w.c.Arrow != 0 && root < w.c.Arrow && root+6 >= w.c.Arrow:
		run.Probe("tree_straddles_arrow_glacier")
	case root >= w.c.London:
		run.Probe("tree_after_london")
	default:
		run.Probe("tree_before_london")
	}
	nre := w.t.Reorgs["longer"] + w.t.Reorgs["equal"] + w.t.Reorgs["shorter"]
	if nre > 0 || branches >= 2 {
		run.Nontrivial(append([]byte(fmt.Sprintf("%d/%d/%v/", len(w.c.Nodes), storedHonest, w.t.Reorgs)), w.t.headLog...))
	}
	run.Sample = map[string]interface{}{
		"network": w.c.Net, "trust_root_height": root, "london": w.c.London, "arrow_glacier": w.c.Arrow,
		"headers": len(w.c.Nodes), "honest": honest, "stored_honest": storedHonest, "stored_leaves": branches,
		"reorgs": w.t.Reorgs, "root_difficulty": w.c.Nodes[0].H.Difficulty.String(),
	}
}

func init() {
	kernel.Register(&kernel.Check{
		ID: "C27", Level: "exploration", Engine: "E1 cluster + lceth (simulated forking Ethereum PoW chain)",
		Rule: "case = one block tree (<= 24 go-ethereum-style headers incl. the trust root, branching <= 3; shapes: random, shorter-but-heavier fork, equal-height heavier fork, longer fork, " +
			"equal-difficulty siblings; trust-root heights around the London / Arrow-Glacier heights of network 1, 2 or 77; difficulties from the repo's own calculators; up to 4 Byzantine headers " +
			"(wrong height incl. a 2^64 wrap, wrong difficulty/time/gas/base fee/extra) and future-dated headers) submitted by a relayer as syncBlockHeader transactions in topological or non-topological " +
			"order with duplicates, 1-6 headers per transaction, 1-4 transactions per poly block, clean node restarts and clock moves in between; after EVERY transaction the light client's records are read " +
			"through the storage read path and compared with the reference tree. non-trivial = at least one reorganisation or two stored leaves; distinct by (tree size, stored set, sequence of heads)",
		Real: []string{"native/service/header_sync/eth (SyncGenesisHeader, SyncBlockHeader, RestructChain, difficulty/base-fee/gas rules)", "native/service/header_sync entrance + side_chain_manager registry", "native runtime, ledger store, overlay/cache DB (E1 harness: every block traced per transaction, re-executed, replicated)"},
		Stub: []string{"Ethash seal verification switched off by hook H4 (eth.SkipSealHook)", "Ethereum network = block-tree generator", "VBFT server / p2p (E1 block-producer stub)"},
		Assumptions: []string{"the wall clock read by SyncBlockHeader is the synctest bubble's fake clock", "header acceptance completeness is not asserted (probe honest_headers_mostly_accepted instead)", "fork choice among equal total difficulties is not constrained by the property"},
		QuickRuns: 128, ThoroughRuns: 12000, QuickCap: 60, ThoroughCap: 840,
		RequiredProbes: []string{"honest_headers_mostly_accepted", "reorg_to_shorter_heavier_fork", "resubmission_of_known_headers_noop", "head_tied_with_other_stored_header"},
		Generate:       genC27,
		Execute:        execC27,
	})
}
