package lceth

import (
	"bytes"
	"encoding/hex"
	"math/big"
	"strings"

	"github.com/ethereum/go-ethereum/crypto"
	"github.com/ethereum/go-ethereum/rlp"
)

// Reference verifier for Merkle-Patricia proofs, written from the Ethereum yellow paper
// (appendix D) and independent of go-ethereum's trie package: a proof is a *set* of RLP-encoded
// nodes; the walk starts at the node whose Keccak-256 is the root and follows the key's nibbles.

const (
	mptValue   = iota // key present; value returned
	mptAbsent         // the nodes prove that the key is not in the trie
	mptInvalid        // a node on the path is missing or malformed
)

func nibbles(key []byte) []byte {
	out := make([]byte, 0, 2*len(key))
	for _, b := range key {
		out = append(out, b>>4, b&15)
	}
	return out
}

// splitList returns the items of an RLP list as raw encodings.
func splitList(enc []byte) ([][]byte, bool) {
	content, rest, err := rlp.SplitList(enc)
	if err != nil || len(rest) != 0 {
		return nil, false
	}
	var items [][]byte
	for len(content) > 0 {
		_, _, r, err := rlp.Split(content)
		if err != nil {
			return nil, false
		}
		items = append(items, content[:len(content)-len(r)])
		content = r
	}
	return items, true
}

func rlpString(item []byte) ([]byte, bool) {
	k, c, rest, err := rlp.Split(item)
	if err != nil || len(rest) != 0 || k == rlp.List {
		return nil, false
	}
	return c, true
}

func refVerifyProof(root []byte, key []byte, nodes [][]byte) ([]byte, int) {
	set := map[string][]byte{}
	for _, n := range nodes {
		set[string(crypto.Keccak256(n))] = n
	}
	path := nibbles(key)
	cur, ok := set[string(root)]
	if !ok {
		return nil, mptInvalid
	}
	for depth := 0; depth < 200; depth++ {
		items, ok := splitList(cur)
		if !ok {
			return nil, mptInvalid
		}
		var next []byte
		switch len(items) {
		case 17:
			if len(path) == 0 {
				v, ok := rlpString(items[16])
				if !ok {
					return nil, mptInvalid
				}
				if len(v) == 0 {
					return nil, mptAbsent
				}
				return v, mptValue
			}
			next = items[path[0]]
			path = path[1:]
		case 2:
			hp, ok := rlpString(items[0])
			if !ok || len(hp) == 0 {
				return nil, mptInvalid
			}
			flag := hp[0] >> 4
			var np []byte
			if flag&1 == 1 {
				np = append(np, hp[0]&15)
			}
			np = append(np, nibbles(hp[1:])...)
			leaf := flag&2 != 0
			if leaf {
				if !bytes.Equal(np, path) {
					return nil, mptAbsent
				}
				v, ok := rlpString(items[1])
				if !ok {
					return nil, mptInvalid
				}
				return v, mptValue
			}
			if len(path) < len(np) || !bytes.Equal(np, path[:len(np)]) {
				return nil, mptAbsent
			}
			path = path[len(np):]
			next = items[1]
		default:
			return nil, mptInvalid
		}
		// a child reference is a 32-byte hash, an empty string, or an embedded node (< 32 bytes)
		if k, c, _, err := rlp.Split(next); err == nil && k != rlp.List {
			if len(c) == 0 {
				return nil, mptAbsent
			}
			if len(c) != 32 {
				return nil, mptInvalid
			}
			cur, ok = set[string(c)]
			if !ok {
				return nil, mptInvalid
			}
		} else if err == nil {
			cur = next
		} else {
			return nil, mptInvalid
		}
	}
	return nil, mptInvalid
}

func unhex(s string) ([]byte, bool) {
	s = strings.ToLower(s)
	s = strings.TrimPrefix(s, "0x")
	if len(s)%2 == 1 {
		return nil, false
	}
	b, err := hex.DecodeString(s)
	return b, err == nil
}

func unhexQuantity(s string) (*big.Int, bool) {
	s = strings.TrimPrefix(strings.ToLower(s), "0x")
	if s == "" {
		return nil, false
	}
	return new(big.Int).SetString(s, 16)
}

func leftPad32(b []byte) []byte {
	if len(b) >= 32 {
		return b
	}
	return append(make([]byte, 32-len(b)), b...)
}
