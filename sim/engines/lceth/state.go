package lceth

import (
	"bytes"
	"encoding/binary"
	"fmt"
	"math/big"

	ecom "github.com/ethereum/go-ethereum/common"
	"github.com/ethereum/go-ethereum/common/hexutil"
	"github.com/ethereum/go-ethereum/crypto"
	"github.com/ethereum/go-ethereum/ethdb/memorydb"
	"github.com/ethereum/go-ethereum/light"
	"github.com/ethereum/go-ethereum/rlp"
	"github.com/ethereum/go-ethereum/trie"
	ccmeth "github.com/polynetwork/poly/native/service/cross_chain_manager/eth"
)

// Account of the simulated EVM state. Accounts 0 (the registered CCMC) and 1 (another
// contract) carry storage; the rest are filler that give the account trie some depth.
type Account struct {
	Addr     []byte
	Nonce    uint64
	Balance  *big.Int
	CodeHash ecom.Hash
}

// Deposit is one (slot -> keccak256(message)) entry written into a contract's storage in one
// block; it stays in the state of every descendant.
type Deposit struct {
	Idx  int
	Acct int // 0 = CCMC, 1 = the other contract
	Slot ecom.Hash
	Msg  []byte
	Node int
	// Short != nil: the slot holds this short value instead of keccak256(Msg) (so a deposit of Msg
	// never happened); Ground: Msg was ground so that its hash ends in Short / starts with 0x00.
	To       uint64 // destination chain of the message
	TwinOf   int    // >= 0: carries the cross-chain id of that earlier deposit
	Short    []byte
	Ground   bool
	LeadZero bool
}

// State is the EVM state after one block.
type State struct {
	c        *Chain
	deps     []int
	salt     uint64
	Root     ecom.Hash
	acctTrie *trie.Trie
	stor     [2]*trie.Trie
	storRoot [2]ecom.Hash
}

func newTrie() *trie.Trie {
	t, err := trie.New(ecom.Hash{}, trie.NewDatabase(memorydb.New()))
	if err != nil {
		panic(err)
	}
	return t
}

func slotOf(i int) ecom.Hash {
	var s ecom.Hash
	binary.BigEndian.PutUint64(s[24:], uint64(i)+1)
	s[0] = 0x5a // a mapping-derived slot is a full-width hash, not a small integer
	return s
}

func storageValue(d *Deposit) []byte {
	v := bytes.TrimLeft(crypto.Keccak256(d.Msg), "\x00") // the EVM stores a word without leading zero bytes
	if d.Short != nil {
		v = d.Short
	}
	enc, err := rlp.EncodeToBytes(v)
	if err != nil {
		panic(err)
	}
	return enc
}

func (c *Chain) accountRLP(a *Account, storageRoot ecom.Hash, salt uint64) []byte {
	bal := new(big.Int).Set(a.Balance)
	if salt != 0 {
		bal.Add(bal, new(big.Int).SetUint64(salt))
	}
	enc, err := rlp.EncodeToBytes([]interface{}{a.Nonce, bal, storageRoot[:], a.CodeHash[:]})
	if err != nil {
		panic(err)
	}
	return enc
}

var emptyRoot = ecom.HexToHash("56e81f171bcc55a6ff8345e692c0f86e5b48e01b996cadc001622fb5e363b421")

// BuildState computes the state holding the given cumulative deposits. salt perturbs a filler
// account (block reward), so that sibling blocks have different state roots.
func (c *Chain) BuildState(deps []int, salt uint64) *State {
	s := &State{c: c, deps: append([]int(nil), deps...), salt: salt}
	for a := 0; a < 2; a++ {
		s.stor[a] = newTrie()
	}
	for _, di := range deps {
		d := c.Deps[di]
		s.stor[d.Acct].Update(crypto.Keccak256(d.Slot[:]), storageValue(d))
	}
	s.acctTrie = newTrie()
	for i, a := range c.Accts {
		sr := emptyRoot
		if i < 2 {
			sr = s.stor[i].Hash()
			s.storRoot[i] = sr
		}
		var sl uint64
		if i == 2 {
			sl = salt
		}
		s.acctTrie.Update(crypto.Keccak256(a.Addr), c.accountRLP(a, sr, sl))
	}
	s.Root = s.acctTrie.Hash()
	return s
}

func (s *State) Has(dep int) bool {
	for _, d := range s.deps {
		if d == dep {
			return true
		}
	}
	return false
}

func hexList(nl light.NodeList) []string {
	out := make([]string, 0, len(nl))
	for _, n := range nl {
		out = append(out, hexutil.Encode(n))
	}
	return out
}

// Prove builds the eth_getProof answer for (account, slot) in this state, exactly as a full
// node would serve it (existence or absence proofs alike).
func (s *State) Prove(acct int, slot ecom.Hash) *ccmeth.ETHProof {
	a := s.c.Accts[acct]
	var anl light.NodeList
	if err := s.acctTrie.Prove(crypto.Keccak256(a.Addr), 0, &anl); err != nil {
		panic(err)
	}
	sr := emptyRoot
	var snl light.NodeList
	val := "0x0"
	if acct < 2 {
		sr = s.storRoot[acct]
		if err := s.stor[acct].Prove(crypto.Keccak256(slot[:]), 0, &snl); err != nil {
			panic(err)
		}
		if v := s.stor[acct].Get(crypto.Keccak256(slot[:])); v != nil {
			var raw []byte
			rlp.DecodeBytes(v, &raw)
			val = hexutil.Encode(raw)
		}
	}
	bal := new(big.Int).Set(a.Balance)
	if acct == 2 {
		bal.Add(bal, new(big.Int).SetUint64(s.salt))
	}
	return &ccmeth.ETHProof{
		Address:      hexutil.Encode(a.Addr),
		Balance:      hexutil.EncodeBig(bal),
		CodeHash:     a.CodeHash.Hex(),
		Nonce:        hexutil.EncodeUint64(a.Nonce),
		StorageHash:  sr.Hex(),
		AccountProof: hexList(anl),
		StorageProofs: []ccmeth.StorageProof{{
			Key:   slot.Hex(),
			Value: val,
			Proof: hexList(snl),
		}},
	}
}

// InitAccounts derives the account set from the run seed.
func (c *Chain) InitAccounts(seed uint64, nFiller int) {
	mk := func(label string, i int) *Account {
		h := crypto.Keccak256([]byte(fmt.Sprintf("%d/%s/%d", seed, label, i)))
		return &Account{Addr: append([]byte(nil), h[:20]...), Nonce: uint64(h[20])%5 + 1, Balance: new(big.Int).SetBytes(h[21:29]), CodeHash: crypto.Keccak256Hash(h)}
	}
	c.Accts = []*Account{mk("ccmc", 0), mk("other", 0)}
	for i := 0; i < nFiller; i++ {
		c.Accts = append(c.Accts, mk("filler", i))
	}
}
