package lceth

import (
	"bytes"
	"encoding/json"
	"fmt"
	"sort"

	"github.com/ethereum/go-ethereum/common/hexutil"
	"github.com/ethereum/go-ethereum/crypto"
	"github.com/ethereum/go-ethereum/rlp"
	"github.com/polynetwork/poly/common"
	ccom "github.com/polynetwork/poly/native/service/cross_chain_manager/common"
	ccmeth "github.com/polynetwork/poly/native/service/cross_chain_manager/eth"

	"polysim/chain"
	"polysim/engines/e1"
	"polysim/engines/lc"
	"polysim/kernel"
)

// C20 depositor for the ETH router: histories of valid deposits through ImportOuterTransfer in
// which every accepted message is replayed later (or in the same block) as
//   (a) the identical transaction bytes,
//   (b) a fresh relayer transaction proving the same storage slot against ANOTHER header (a later
//       block of the canonical chain: other height, other state root, other proof nodes),
//   (c) a re-encoding of the same proof (hex without 0x / upper case, node lists reversed,
//       duplicated, with a supernumerary node, indented JSON) that still verifies,
//   (d) a forged variant: same cross-chain id, altered payload (with the original's proof), and
//   (e) a "valid twin": a DIFFERENT message carrying the same cross-chain id, stored in its own
//       slot of the CCMC and submitted with a fully valid proof - only the done mark stops it;
// plus messages that are never acceptable (other contract, short non-hash slot value, dropped
// proof node, unconfirmed height), for which no done mark may ever appear.

const c20Router = "eth"

type c20case struct {
	form      string // first | identical | other-height | reencoded | forged | twin | invalid
	dep       *Deposit
	node      *Node
	ccid      []byte
	sameBlock bool
}

type c20rec struct { // one original submission (queued or executed)
	dep  *Deposit
	node *Node
	p    *pend
	par  *ccom.EntranceParam
}

type c20acc struct {
	epoch  int // restarts seen when it was accepted
	height uint32
}

type c20 struct {
	w        *world
	recs     []*c20rec
	accepted map[string]*c20acc
	ccids    map[string][]byte // every cross-chain id ever submitted
	restarts int
	nReplay  int
	sig      []byte
}

func ccidOf(msg []byte) []byte {
	mp := new(ccom.MakeTxParam)
	if err := mp.Deserialization(common.NewZeroCopySource(msg)); err != nil {
		panic(err)
	}
	return mp.CrossChainID
}

// confirmed lists the canonical blocks (oldest first) that have enough confirmations under the
// committed head and whose state holds the deposit.
func (x *c20) confirmed(dep *Deposit) []*Node {
	w := x.w
	cur, head, ok := w.t.HeadOf(w.h.View())
	if !ok || head == nil {
		return nil
	}
	var l []*Node
	for n := head; n != nil; n = n.Parent {
		if n.State != nil && n.State.Has(dep.Idx) && cur-n.H.Number.Uint64()+1 >= w.bw {
			l = append([]*Node{n}, l...)
		}
	}
	return l
}

// encode renders the eth_getProof answer in one of several equivalent spellings.
func encodeProof(pr *ccmeth.ETHProof, enc int64) []byte {
	sp := &pr.StorageProofs[0]
	hexf := int64(0)
	indent := false
	switch mod(enc, 8) {
	case 1:
		hexf = 1
	case 2:
		hexf = 2
	case 3:
		pr.AccountProof = rotate(pr.AccountProof, 0)
		sp.Proof = rotate(sp.Proof, 0)
	case 4:
		pr.AccountProof = append(pr.AccountProof, pr.AccountProof...)
		sp.Proof = append(append([]string{}, sp.Proof...), sp.Proof...)
	case 5:
		junk, _ := rlp.EncodeToBytes([]interface{}{[]byte{0x20, byte(enc)}, crypto.Keccak256([]byte{byte(enc >> 3)})})
		pr.AccountProof = append(pr.AccountProof, hexutil.Encode(junk))
		sp.Proof = append([]string{hexutil.Encode(junk)}, sp.Proof...)
	case 6:
		indent = true
	case 7:
		hexf = 1
		sp.Proof = rotate(sp.Proof, 1)
		indent = true
	}
	if hexf != 0 {
		pr.Address, pr.StorageHash, pr.CodeHash = reformat(pr.Address, hexf), reformat(pr.StorageHash, hexf), reformat(pr.CodeHash, hexf)
		for i := range pr.AccountProof {
			pr.AccountProof[i] = reformat(pr.AccountProof[i], hexf)
		}
		sp.Key = reformat(sp.Key, hexf)
		for j := range sp.Proof {
			sp.Proof[j] = reformat(sp.Proof[j], hexf)
		}
	}
	var b []byte
	var err error
	if indent {
		b, err = json.MarshalIndent(pr, " ", "\t")
	} else {
		b, err = json.Marshal(pr)
	}
	if err != nil {
		panic(err)
	}
	return b
}

func (x *c20) importTx(dep *Deposit, node *Node, height uint64, proof []byte, msg []byte, cs *c20case) *pend {
	w := x.w
	rel := w.h.User(1 + w.nTx%3)
	w.nTx++
	par := &ccom.EntranceParam{SourceChainID: srcChainID, Height: uint32(height), Proof: proof, RelayerAddress: rel.Address[:], Extra: msg}
	tx := w.h.Signed(chain.CrossChain, ccom.IMPORT_OUTER_TRANSFER_NAME, chain.Args(par), rel)
	cs.dep, cs.node, cs.ccid = dep, node, ccidOf(msg)
	x.ccids[string(cs.ccid)] = cs.ccid
	return &pend{tx: tx, kind: "import", rep: cs, desc: fmt.Sprintf("c20 %s[dep %d id %x from #%d height %d]", cs.form, dep.Idx, cs.ccid[:4], node.Idx, height)}
}

// queuedImports reports whether an import is already waiting for the next block.
func (x *c20) queuedImports() bool {
	for _, p := range x.w.q {
		if p.kind == "import" {
			return true
		}
	}
	return false
}

// step turns one plan step into a queued transaction (or nothing when inapplicable).
func (x *c20) step(st kernel.Step) {
	w := x.w
	for _, p := range w.q { // header syncs first: imports are resolved against the committed head
		if p.kind == "sync" {
			if !w.flush() {
				return
			}
			break
		}
	}
	if w.run.Failed() || len(w.c.Deps) == 0 {
		return
	}
	same := x.queuedImports()
	switch st.Op {
	case "idle": // relay-chain blocks without our transactions
		if !w.flush() {
			return
		}
		for i := int64(0); i <= mod(st.Arg(0), 3); i++ {
			if _, ok := w.h.Exec(); !ok {
				return
			}
		}
		w.run.Logf("idle blocks")
	case "first": // [depSel, nodeSel, enc]
		var cand []*Deposit
		for _, d := range w.c.Deps {
			if d.Acct != 0 || d.Short != nil || d.To != dstChainID {
				continue
			}
			id := string(ccidOf(d.Msg))
			queued := false
			for _, r := range x.recs {
				if string(ccidOf(r.dep.Msg)) == id {
					queued = true
				}
			}
			if !queued && x.accepted[id] == nil && len(x.confirmed(d)) > 0 {
				cand = append(cand, d)
			}
		}
		if len(cand) == 0 {
			return
		}
		d := cand[mod(st.Arg(0), int64(len(cand)))]
		nodes := x.confirmed(d)
		n := nodes[mod(st.Arg(1), int64(len(nodes)))]
		enc := int64(0)
		if st.Arg(2)%4 == 3 {
			enc = st.Arg(2) / 4
		}
		p := x.importTx(d, n, n.H.Number.Uint64(), encodeProof(n.State.Prove(0, d.Slot), enc), d.Msg, &c20case{form: "first", sameBlock: same})
		x.recs = append(x.recs, &c20rec{dep: d, node: n, p: p})
		w.q = append(w.q, p)
	case "rep": // [recSel, form, nodeSel, enc]
		if len(x.recs) == 0 {
			return
		}
		r := x.recs[mod(st.Arg(0), int64(len(x.recs)))]
		d, n := r.dep, r.node
		var p *pend
		switch mod(st.Arg(1), 5) {
		case 0:
			cs := *r.p.rep
			cs.form, cs.sameBlock = "identical", same
			p = &pend{tx: r.p.tx, kind: "import", rep: &cs, desc: fmt.Sprintf("c20 identical[dep %d id %x] (same transaction bytes)", d.Idx, cs.ccid[:4])}
		case 1:
			nodes := x.confirmed(d)
			var others []*Node
			for _, o := range nodes {
				if o != n {
					others = append(others, o)
				}
			}
			form := "other-height"
			if len(others) > 0 {
				n = others[mod(st.Arg(2), int64(len(others)))]
			} else {
				form = "reencoded" // no second confirmed header yet: another spelling instead
			}
			p = x.importTx(d, n, n.H.Number.Uint64(), encodeProof(n.State.Prove(0, d.Slot), 1+mod(st.Arg(3), 7)), d.Msg, &c20case{form: form, sameBlock: same})
		case 2:
			p = x.importTx(d, n, n.H.Number.Uint64(), encodeProof(n.State.Prove(0, d.Slot), 1+mod(st.Arg(3), 7)), d.Msg, &c20case{form: "reencoded", sameBlock: same})
		case 3:
			msg := append([]byte(nil), d.Msg...)
			msg[len(msg)-9-int(mod(st.Arg(3), 6))] ^= byte(1 << uint(mod(st.Arg(2), 8))) // inside Args, before the counter
			if !bytes.Equal(ccidOf(msg), ccidOf(d.Msg)) {
				panic("lceth: forged payload changed the cross-chain id")
			}
			p = x.importTx(d, n, n.H.Number.Uint64(), encodeProof(n.State.Prove(0, d.Slot), 0), msg, &c20case{form: "forged", sameBlock: same})
		case 4:
			// another message under the same id with its own valid proof
			var twins []*Deposit
			for _, t := range w.c.Deps {
				if t != d && t.Acct == 0 && t.Short == nil && bytes.Equal(ccidOf(t.Msg), ccidOf(d.Msg)) && len(x.confirmed(t)) > 0 {
					twins = append(twins, t)
				}
			}
			if len(twins) == 0 {
				p = x.importTx(d, n, n.H.Number.Uint64(), encodeProof(n.State.Prove(0, d.Slot), 1+mod(st.Arg(3), 7)), d.Msg, &c20case{form: "reencoded", sameBlock: same})
				break
			}
			t := twins[mod(st.Arg(2), int64(len(twins)))]
			tn := x.confirmed(t)
			n = tn[mod(st.Arg(3), int64(len(tn)))]
			p = x.importTx(t, n, n.H.Number.Uint64(), encodeProof(n.State.Prove(0, t.Slot), 0), t.Msg, &c20case{form: "twin", sameBlock: same})
		}
		w.q = append(w.q, p)
	case "inv": // [depSel, how, nodeSel]: a message that can never be accepted in this form
		d := w.c.Deps[mod(st.Arg(0), int64(len(w.c.Deps)))]
		_, head, ok := w.t.HeadOf(w.h.View())
		if !ok || head == nil {
			return
		}
		var holders []*Node
		for n := head; n != nil; n = n.Parent {
			if n.State != nil && n.State.Has(d.Idx) {
				holders = append(holders, n)
			}
		}
		n := head
		if len(holders) > 0 {
			n = holders[mod(st.Arg(2), int64(len(holders)))]
		}
		pr := n.State.Prove(d.Acct, d.Slot)
		height := n.H.Number.Uint64()
		how := "as-is"
		if d.Acct == 0 && d.Short == nil { // a valid deposit: break the submission
			switch mod(st.Arg(1), 4) {
			case 0:
				pr.AccountProof = dropAt(pr.AccountProof, st.Arg(2))
				how = "account-node-dropped"
			case 1:
				pr.StorageProofs[0].Proof = dropAt(pr.StorageProofs[0].Proof, st.Arg(2))
				how = "storage-node-dropped"
			case 2:
				pr = n.State.Prove(1, d.Slot)
				how = "other-contract"
			case 3:
				height++
				how = "height-shifted"
			}
		}
		p := x.importTx(d, n, height, encodeProof(pr, 0), d.Msg, &c20case{form: "invalid", sameBlock: same})
		p.desc += " " + how
		w.q = append(w.q, p)
	}
}

func (x *c20) fail(key, format string, a ...interface{}) {
	x.w.run.Fail("C20", key+":"+c20Router, format, a...)
}

// marks checks "done mark exactly when accepted" for every cross-chain id seen so far.
func (x *c20) marks(v sview, when string) {
	ids := make([]string, 0, len(x.ccids))
	for k := range x.ccids {
		ids = append(ids, k)
	}
	sort.Strings(ids)
	for _, k := range ids {
		done := doneIn(v, srcChainID, x.ccids[k])
		switch {
		case done && x.accepted[k] == nil:
			x.fail("done-mark-without-acceptance", "%s: message (chain %d, id %x) is marked done but was never accepted", when, srcChainID, x.ccids[k])
		case !done && x.accepted[k] != nil:
			x.fail("done-mark-missing", "%s: message (chain %d, id %x) was accepted at relay height %d but carries no done mark", when, srcChainID, x.ccids[k], x.accepted[k].height)
		}
	}
}

func (x *c20) onImport(tr *e1.TxTrace, pre, post sview, p *pend) {
	run, cs := x.w.run, p.rep
	id := string(cs.ccid)
	prior := x.accepted[id]
	released := len(tr.Cross) > 0
	for k := range tr.Writes {
		if len(k) > 21 && k[1:21] == string(chain.CrossChain[:]) && bytes.HasPrefix([]byte(k[21:]), []byte(ccom.REQUEST)) {
			released = true
		}
	}
	if prior != nil {
		// a replay of an accepted message, whatever its form
		run.Fault("c20_replay_" + cs.form)
		x.nReplay++
		if tr.OK || released {
			x.fail("accepted-twice", "%s: message (chain %d, id %x) was accepted at relay height %d and is accepted again (tx ok=%v, released=%v, form %s)", p.desc, srcChainID, cs.ccid, prior.height, tr.OK, released, cs.form)
			return
		}
		if len(tr.Writes) != 0 || len(tr.Events) != 0 || len(tr.Cross) != 0 {
			x.fail("replay-changed-state", "%s: refused replay left %d writes, %d events, %d cross-state leaves", p.desc, len(tr.Writes), len(tr.Events), len(tr.Cross))
			return
		}
		run.Probe("c20_replay_rejected:" + c20Router)
		run.Probe("c20_" + cs.form + "_replay_rejected:" + c20Router)
		if cs.sameBlock && prior.height == tr.Height {
			run.Probe("c20_replay_in_same_block_rejected:" + c20Router)
		}
		if prior.height != tr.Height {
			run.Probe("c20_replay_in_later_block_rejected:" + c20Router)
		}
		if x.restarts > prior.epoch {
			run.Probe("c20_replay_after_restart_rejected:" + c20Router)
		}
	} else if tr.OK {
		x.accepted[id] = &c20acc{epoch: x.restarts, height: tr.Height}
		run.Probe("c20_deposit_accepted:" + c20Router)
		if cs.form != "first" {
			run.Probe("c20_first_acceptance_through_" + cs.form + ":" + c20Router)
		}
		if !released {
			x.fail("accepted-without-release", "%s succeeded without producing a request", p.desc)
		}
	} else {
		run.Probe("c20_never_accepted_submission_rejected:" + c20Router)
		if cs.form == "first" {
			run.Probe("c20_original_rejected:" + c20Router)
		}
	}
	x.sig = append(x.sig, cs.form[0]^cs.form[1], boolByte(tr.OK))
	x.marks(post, p.desc)
}

func c20Generate(rng *kernel.RNG, tier string) *kernel.Plan {
	g := newTreeGen(rng)
	cfg := baseCfg(rng)
	cfg["bw"] = int64(1 + rng.Intn(3))
	n := 6 + rng.Intn(8)
	g.branch(0, n, styleAny, rng.Chance(0.2))
	steps := g.steps
	nd := 4 + rng.Intn(5)
	for i := 0; i < nd; i++ {
		e := rng.Intn(1 + n/2)
		kind, acct := 0, 0
		switch r := rng.Intn(100); {
		case r < 32 && i > 0:
			kind = depTwin
		case r < 30:
			kind = depShort1
		case r < 38:
			acct = 1
		}
		steps = append(steps, kernel.Step{Op: "dep", A: []int64{int64(e), int64(acct), int64(kind), int64(rng.Intn(1 << 12))}})
	}
	// the relayer first brings the light client up to a head that confirms the early blocks
	later := rng.Intn(4)
	upto := n - later
	for i := 1; i <= upto; {
		k := 1 + rng.Intn(4)
		var a []int64
		for j := 0; j < k && i <= upto; j++ {
			a = append(a, int64(i))
			i++
		}
		steps = append(steps, kernel.Step{Op: "sub", A: a})
		if rng.Chance(0.5) {
			steps = append(steps, kernel.Step{Op: "blk"})
		}
	}
	steps = append(steps, kernel.Step{Op: "blk"})
	rep := func() kernel.Step {
		return kernel.Step{Op: "rep", A: []int64{int64(rng.Intn(64)), []int64{0, 1, 2, 3, 4, 4, 1}[rng.Intn(7)], int64(rng.Intn(64)), int64(rng.Intn(64))}}
	}
	restarts := 0
	next := upto + 1
	for k := 0; k < 10+rng.Intn(14); k++ {
		switch r := rng.Intn(100); {
		case r < 30:
			steps = append(steps, kernel.Step{Op: "first", A: []int64{int64(rng.Intn(64)), int64(rng.Intn(64)), int64(rng.Intn(32))}})
			if rng.Chance(0.4) { // replay in the same block, right behind the original
				steps = append(steps, rep())
			}
		case r < 68:
			steps = append(steps, rep())
		case r < 80:
			steps = append(steps, kernel.Step{Op: "inv", A: []int64{int64(rng.Intn(64)), int64(rng.Intn(4)), int64(rng.Intn(64))}})
		case r < 88:
			steps = append(steps, kernel.Step{Op: "idle", A: []int64{int64(rng.Intn(3))}})
		case r < 93 && restarts < 1:
			steps = append(steps, kernel.Step{Op: "blk"}, kernel.Step{Op: "restart", A: []int64{int64(rng.Intn(3))}})
			restarts++
		case next <= n:
			steps = append(steps, kernel.Step{Op: "sub", A: []int64{int64(next)}}, kernel.Step{Op: "blk"})
			next++
		default:
			steps = append(steps, rep())
		}
		if rng.Chance(0.45) {
			steps = append(steps, kernel.Step{Op: "blk"})
		}
	}
	steps = append(steps, kernel.Step{Op: "blk"})
	for k := 0; k < 2+rng.Intn(3); k++ { // a last round of replays against the final state
		steps = append(steps, rep())
	}
	steps = append(steps, kernel.Step{Op: "blk"})
	return &kernel.Plan{Cfg: cfg, Steps: steps}
}

func c20Execute(run *kernel.Run) {
	inBubble(func() {
		w := newWorld(run)
		defer w.close()
		x := &c20{w: w, accepted: map[string]*c20acc{}, ccids: map[string][]byte{}}
		w.onImp = x.onImport
		w.afterRestart = func() {
			x.restarts++
			x.marks(w.h.View(), "after restart")
		}
		w.buildTree(run.Plan.Steps)
		if !w.installRoot() {
			return
		}
		if !w.runSteps(run.Plan.Steps, x.step) {
			return
		}
		x.marks(w.h.View(), "at the end")
		if len(x.accepted) > 0 && x.nReplay > 0 {
			run.Nontrivial(x.sig)
		}
		run.Probes["__evals"] = len(x.sig) / 2
		run.Sample = map[string]interface{}{"router": c20Router, "network": w.c.Net, "headers": len(w.c.Nodes), "deposits": len(w.c.Deps), "blocks_to_wait": w.bw,
			"accepted_ids": len(x.accepted), "import_transactions": len(x.sig) / 2, "restarts": x.restarts}
	})
}

type ethDepositor struct{}

func (ethDepositor) Router() string { return c20Router }
func (ethDepositor) GenerateReplay(rng *kernel.RNG, tier string) *kernel.Plan {
	return c20Generate(rng, tier)
}
func (ethDepositor) ExecuteReplay(run *kernel.Run) { c20Execute(run) }

func init() { lc.RegisterDepositor(ethDepositor{}) }
