package lceth

import (
	"bytes"
	"encoding/binary"
	"encoding/json"
	"fmt"
	"math/big"
	"sort"

	ecom "github.com/ethereum/go-ethereum/common"
	hscom "github.com/polynetwork/poly/native/service/header_sync/common"
	eth "github.com/polynetwork/poly/native/service/header_sync/eth"

	"polysim/chain"
	"polysim/engines/e1"
	"polysim/kernel"
)

// Key layout of the Ethereum light client under the header-sync contract (eth/utils.go):
//   genesisHeader | chainID                -> JSON {header, difficultySum} of the trust root
//   headerIndex   | chainID | header hash  -> JSON {header, difficultySum}
//   mainChain     | chainID | height       -> header hash (canonical index)
//   currentHeaderHeight | chainID          -> height of the head (8 bytes LE)
// chainID and height are 8-byte little-endian.

func le64(v uint64) []byte {
	var b [8]byte
	binary.LittleEndian.PutUint64(b[:], v)
	return b[:]
}

func keyGenesis(chainID uint64) []byte { return append([]byte(hscom.GENESIS_HEADER), le64(chainID)...) }
func keyHeader(chainID uint64, hash []byte) []byte {
	return append(append([]byte(hscom.HEADER_INDEX), le64(chainID)...), hash...)
}
func keyMain(chainID, height uint64) []byte {
	return append(append([]byte(hscom.MAIN_CHAIN), le64(chainID)...), le64(height)...)
}
func keyCur(chainID uint64) []byte { return append([]byte(hscom.CURRENT_HEADER_HEIGHT), le64(chainID)...) }

// Tracker is the reference side of C27: the block tree with reference total difficulties plus
// what has been observed stored so far; it checks the light client's state after every
// transaction through the storage read path.
type Tracker struct {
	R       *kernel.Run
	ChainID uint64
	C       *Chain
	byHash  map[ecom.Hash]*Node
	stored  map[int][]byte   // node index -> stored bytes as first observed (entries are immutable)
	td      map[int]*big.Int // node index -> stored total difficulty
	Reorgs  map[string]int
	topoTx  int
	topoOK  int
	headLog []byte
	wasCanonical map[int]bool
}

func NewTracker(r *kernel.Run, chainID uint64, c *Chain) *Tracker {
	t := &Tracker{R: r, ChainID: chainID, C: c, byHash: map[ecom.Hash]*Node{}, stored: map[int][]byte{}, td: map[int]*big.Int{}, Reorgs: map[string]int{}, wasCanonical: map[int]bool{}}
	return t
}

// Index (re)builds the hash index after nodes were added.
func (t *Tracker) Index() {
	for _, n := range t.C.Nodes {
		t.byHash[n.Hash] = n
	}
}

func (t *Tracker) Stored(n *Node) bool { _, ok := t.stored[n.Idx]; return ok }

func (t *Tracker) fail(key, format string, a ...interface{}) {
	t.R.Fail("C27", key, format, a...)
}

// HeadOf reads the tracked head through a view: (height, node, ok). node is nil if the index
// entry does not name a header of the model.
func (t *Tracker) HeadOf(v sview) (uint64, *Node, bool) {
	raw := v.Get(chain.HeaderSync, keyCur(t.ChainID))
	if len(raw) != 8 {
		return 0, nil, false
	}
	cur := binary.LittleEndian.Uint64(raw)
	hh := v.Get(chain.HeaderSync, keyMain(t.ChainID, cur))
	if len(hh) != 32 {
		return cur, nil, true
	}
	return cur, t.byHash[ecom.BytesToHash(hh)], true
}

// CanonicalAt returns the model node the canonical index names at a height (nil if none).
func (t *Tracker) CanonicalAt(v sview, height uint64) *Node {
	hh := v.Get(chain.HeaderSync, keyMain(t.ChainID, height))
	if len(hh) != 32 {
		return nil
	}
	return t.byHash[ecom.BytesToHash(hh)]
}

// classify attributes a raw written key to a light-client record of this chain.
func (t *Tracker) classify(raw string) (kind string, arg []byte) {
	if len(raw) < 21 || !bytes.Equal([]byte(raw[1:21]), chain.HeaderSync[:]) {
		return "foreign", nil
	}
	k := []byte(raw[21:])
	for _, p := range []struct {
		name string
		key  []byte
		rest int
	}{{"genesis", keyGenesis(t.ChainID), 0}, {"header", keyHeader(t.ChainID, nil), 32}, {"main", keyMain(t.ChainID, 0)[:len(hscom.MAIN_CHAIN)+8], 8}, {"cur", keyCur(t.ChainID), 0}} {
		if bytes.HasPrefix(k, p.key) && len(k) == len(p.key)+p.rest {
			return p.name, k[len(p.key):]
		}
	}
	return "unknown", k
}

// OnTx checks one observed transition of a syncGenesisHeader / syncBlockHeader transaction.
// submitted = the model nodes whose headers the transaction carried (in order); genesis = the
// transaction is the trust-root installation. now = the clock the contract saw.
func (t *Tracker) OnTx(tr *e1.TxTrace, pre, post sview, submitted []*Node, genesis bool, now int64) {
	r := t.R
	inTx := map[int]bool{}
	for _, n := range submitted {
		inTx[n.Idx] = true
	}
	// completeness probe (not asserted): an all-honest transaction in topological order
	if !genesis {
		earlier := map[int]bool{}
		acceptable := true
		fresh := 0
		for _, n := range submitted {
			if t.Stored(n) || earlier[n.Idx] {
				continue
			}
			fresh++
			if byz(n.Kind) || n.Parent == nil || !(t.Stored(n.Parent) || earlier[n.Parent.Idx]) || int64(n.H.Time) > now+15 {
				acceptable = false
			}
			earlier[n.Idx] = true
		}
		if acceptable && fresh > 0 {
			t.topoTx++
			if tr.OK {
				t.topoOK++
			} else {
				r.Probe("honest_topological_tx_rejected")
			}
		}
	}
	preHeight, preHead, preOK := t.HeadOf(pre)
	// 1. writes are confined to this chain's light-client records, and name model headers
	for _, k := range sortedKeys(tr.Writes) {
		kind, arg := t.classify(k)
		switch kind {
		case "header":
			n := t.byHash[ecom.BytesToHash(arg)]
			if n == nil {
				t.fail("unknown-header-stored", "tx %d wrote a header-index entry %x that no submitted header hashes to", tr.Index, arg)
			} else if !inTx[n.Idx] && !(genesis && n.Idx == 0) {
				t.fail("header-stored-by-foreign-tx", "tx %d wrote the entry of header #%d which it did not carry", tr.Index, n.Idx)
			}
		case "main", "cur":
		case "genesis":
			if !genesis {
				t.fail("unexpected-light-client-write", "a header-sync transaction rewrote the trust-root record")
			}
		default:
			t.fail("unexpected-light-client-write", "tx %d wrote %s key %x", tr.Index, kind, []byte(k))
		}
	}
	// 2. which model headers are stored now
	fresh := 0
	for _, n := range t.C.Nodes {
		v := post.Get(chain.HeaderSync, keyHeader(t.ChainID, n.Hash[:]))
		old, was := t.stored[n.Idx]
		if v == nil {
			if was {
				t.fail("stored-header-vanished", "header #%d (%x) was stored and is gone after tx %d", n.Idx, n.Hash[:6], tr.Index)
			}
			continue
		}
		if was {
			if !bytes.Equal(old, v) {
				t.fail("stored-header-changed", "stored record of header #%d changed", n.Idx)
			}
			continue
		}
		if !tr.OK || !(inTx[n.Idx] || (genesis && n.Idx == 0)) {
			t.fail("header-stored-by-foreign-tx", "header #%d became stored by tx %d (ok=%v) which did not carry it", n.Idx, tr.Index, tr.OK)
		}
		var rec eth.HeaderWithDifficultySum
		if err := json.Unmarshal(v, &rec); err != nil || rec.DifficultySum == nil || rec.Header.Number == nil || rec.Header.Difficulty == nil {
			t.fail("stored-header-undecodable", "stored record of header #%d does not decode: %v", n.Idx, err)
			continue
		}
		if rec.Header.Hash() != n.Hash || rec.Header.ParentHash != n.H.ParentHash || rec.Header.Number.Cmp(n.H.Number) != 0 || rec.Header.Difficulty.Cmp(n.H.Difficulty) != 0 {
			t.fail("stored-header-is-not-the-submitted-one", "record under %x holds another header (number %v difficulty %v)", n.Hash[:6], rec.Header.Number, rec.Header.Difficulty)
		}
		t.stored[n.Idx] = append([]byte(nil), v...)
		t.td[n.Idx] = rec.DifficultySum
		fresh++
		if byz(n.Kind) {
			r.Probe("byzantine_header_stored:" + kindNames[n.Kind])
		}
	}
	// 3. re-submission changes nothing
	if fresh == 0 && !genesis {
		if len(tr.Writes) != 0 || len(tr.Events) != 0 || len(tr.Cross) != 0 {
			t.fail("resubmission-changed-state", "tx %d stored no new header but wrote %d keys / %d events:%s", tr.Index, len(tr.Writes), len(tr.Events), writeList(tr))
		}
		if tr.OK && len(submitted) > 0 {
			r.Probe("resubmission_of_known_headers_noop")
		}
	}
	t.CheckView(post, fmt.Sprintf("after tx %d", tr.Index))
	// reorg classification (evidence only)
	postHeight, postHead, postOK := t.HeadOf(post)
	if preOK && postOK && preHead != nil && postHead != nil && preHead != postHead {
		if a, b := t.td[preHead.Idx], t.td[postHead.Idx]; a != nil && b != nil && a.Cmp(b) == 0 {
			r.Probe("head_switched_between_equal_total_difficulties") // tie-break behaviour: evidence only
		}
		switch {
		case IsAncestor(preHead, postHead):
			r.Probe("head_extended")
		case postHeight > preHeight:
			t.Reorgs["longer"]++
			r.Fault("reorg_to_longer_fork")
		case postHeight == preHeight:
			t.Reorgs["equal"]++
			r.Fault("reorg_to_equal_height_heavier_fork")
		default:
			t.Reorgs["shorter"]++
			r.Fault("reorg_to_shorter_heavier_fork")
			r.Probe("reorg_to_shorter_heavier_fork")
			if post.Get(chain.HeaderSync, keyMain(t.ChainID, preHeight)) != nil {
				r.Probe("stale_index_entries_above_head")
			}
		}
	}
	if postHead != nil {
		t.headLog = append(t.headLog, byte(postHead.Idx))
		for x := postHead; x != nil; x = x.Parent {
			t.wasCanonical[x.Idx] = true
		}
	}
}

func writeList(tr *e1.TxTrace) string {
	var b bytes.Buffer
	for i, k := range sortedKeys(tr.Writes) {
		if i > 3 {
			b.WriteString(" ...")
			break
		}
		fmt.Fprintf(&b, " %x", k)
	}
	return b.String()
}

func sortedKeys(m map[string][]byte) []string {
	ks := make([]string, 0, len(m))
	for k := range m {
		ks = append(ks, k)
	}
	sort.Strings(ks)
	return ks
}

// CheckView asserts the state invariants of C27 on a view.
func (t *Tracker) CheckView(v sview, when string) {
	if len(t.stored) == 0 {
		return
	}
	root := t.C.Nodes[0]
	// every stored header other than the trust root: parent stored, height, total difficulty
	idxs := make([]int, 0, len(t.stored))
	for i := range t.stored {
		idxs = append(idxs, i)
	}
	sort.Ints(idxs)
	var maxTD *big.Int
	maxIdx := -1
	for _, i := range idxs {
		n := t.C.Nodes[i]
		if maxTD == nil || t.td[i].Cmp(maxTD) > 0 {
			maxTD, maxIdx = t.td[i], i
		}
		if n.Parent == nil {
			continue
		}
		if !t.Stored(n.Parent) {
			t.fail("stored-header-without-stored-parent", "%s: header #%d (%s, number %v) is stored but its parent #%d is not", when, n.Idx, kindNames[n.Kind], n.H.Number, n.Parent.Idx)
			continue
		}
		want := new(big.Int).Add(n.Parent.H.Number, big.NewInt(1))
		if n.H.Number.Cmp(want) != 0 {
			key := "stored-header-height-not-parent-plus-one"
			if !n.H.Number.IsUint64() {
				key += ":number-wider-than-64-bits"
			}
			t.fail(key, "%s: stored header #%d (%s) has number %v, its stored parent #%d has number %v", when, n.Idx, kindNames[n.Kind], n.H.Number, n.Parent.Idx, n.Parent.H.Number)
		}
		sum := new(big.Int).Add(t.td[n.Parent.Idx], n.H.Difficulty)
		if sum.Cmp(t.td[i]) != 0 {
			t.fail("stored-total-difficulty-not-parent-plus-own", "%s: header #%d stores total difficulty %v; parent's %v + own %v = %v", when, n.Idx, t.td[i], t.td[n.Parent.Idx], n.H.Difficulty, sum)
		}
	}
	// canonical index: gap-free, parent-linked, from the trust root to the head
	cur, head, ok := t.HeadOf(v)
	if !ok {
		t.fail("canonical-head-unreadable", "%s: no current header height although %d headers are stored", when, len(t.stored))
		return
	}
	rootNum := root.H.Number.Uint64()
	if cur < rootNum {
		t.fail("canonical-head-below-trust-root", "%s: current height %d is below the trust root %d", when, cur, rootNum)
		return
	}
	if cur-rootNum > uint64(len(t.C.Nodes)) {
		t.fail("canonical-index-gap", "%s: current height %d is further from the trust root %d than there are headers", when, cur, rootNum)
		return
	}
	var prev *Node
	for h := rootNum; h <= cur; h++ {
		hh := v.Get(chain.HeaderSync, keyMain(t.ChainID, h))
		if len(hh) != 32 {
			t.fail("canonical-index-gap", "%s: no canonical entry at height %d (trust root %d, head %d)", when, h, rootNum, cur)
			return
		}
		n := t.byHash[ecom.BytesToHash(hh)]
		if n == nil || !t.Stored(n) {
			t.fail("canonical-entry-not-a-stored-header", "%s: canonical entry at height %d names %x which is not a stored header", when, h, hh[:6])
			return
		}
		if n.H.Number.IsUint64() && n.H.Number.Uint64() != h { // (a wider number is reported once, as a height violation)
			t.fail("canonical-height-mismatch", "%s: canonical entry at height %d names header #%d whose number is %v", when, h, n.Idx, n.H.Number)
		}
		if h == rootNum {
			if n != root {
				t.fail("canonical-index-does-not-start-at-trust-root", "%s: entry at the trust root's height names header #%d", when, n.Idx)
			}
		} else if n.Parent != prev {
			t.fail("canonical-index-not-parent-linked", "%s: canonical header #%d at height %d does not have the canonical header #%d at height %d as parent", when, n.Idx, h, prev.Idx, h-1)
		}
		prev = n
	}
	if head == nil || head != prev {
		return // already reported above
	}
	if t.td[head.Idx].Cmp(maxTD) < 0 {
		t.fail("head-total-difficulty-not-maximal", "%s: head #%d (height %d) has total difficulty %v but stored header #%d (number %v) has %v", when, head.Idx, cur, t.td[head.Idx], maxIdx, t.C.Nodes[maxIdx].H.Number, maxTD)
	}
	if maxTD.Cmp(t.td[head.Idx]) == 0 && maxIdx != head.Idx {
		t.R.Probe("head_tied_with_other_stored_header")
	}
}

// Digest renders the light client's state (for traces and state-distinctness).
func (t *Tracker) Digest(v sview) string {
	cur, head, ok := t.HeadOf(v)
	hi := -1
	if head != nil {
		hi = head.Idx
	}
	idxs := make([]int, 0, len(t.stored))
	for i := range t.stored {
		idxs = append(idxs, i)
	}
	sort.Ints(idxs)
	return fmt.Sprintf("head=#%d@%d ok=%v stored=%v", hi, cur, ok, idxs)
}

// Finish emits the completeness probe.
func (t *Tracker) Finish() {
	if t.topoTx > 0 && t.topoOK*10 >= t.topoTx*9 {
		t.R.Probe("honest_headers_mostly_accepted")
	}
	if t.topoTx > 0 && t.topoOK*10 < t.topoTx*9 {
		t.R.Probe("honest_headers_mostly_rejected_run")
	}
}
