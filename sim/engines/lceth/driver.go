package lceth

import (
	"encoding/json"
	"math/big"
	"time"

	"github.com/polynetwork/poly/common/config"
	"github.com/polynetwork/poly/core/types"
	hscom "github.com/polynetwork/poly/native/service/header_sync/common"
	eth "github.com/polynetwork/poly/native/service/header_sync/eth"
	"github.com/polynetwork/poly/native/service/utils"

	"polysim/chain"
	"polysim/engines/e1"
	"polysim/engines/lc"
	"polysim/kernel"
)

// Driver for the router-generic light-client checks (C19, C16-clock).
type driver struct{}

func (driver) Name() string   { return "eth" }
func (driver) Router() uint64 { return utils.ETH_ROUTER }

// lcChain is a linear simulated Ethereum chain bound to a harness. NewChain switches the
// Ethash seal check off (hook H4, the only way synthetic headers can pass); Close switches it
// back on.
type lcChain struct {
	h       *e1.Harness
	id      uint64
	c       *Chain
	alt     *Chain
	tip     *Node
	rng     *kernel.RNG
	relayer int
}

func (driver) NewChain(h *e1.Harness, chainID uint64, seed uint64) (lc.Chain, error) {
	net := config.DefConfig.P2PNode.NetworkId
	rng := kernel.NewRNG(kernel.Derive(seed, "lceth-driver", chainID))
	x := &lcChain{h: h, id: chainID, c: NewChain(net), alt: NewChain(net), rng: rng}
	x.c.InitAccounts(seed, 1)
	if err := h.RegisterChain(chainID, utils.ETH_ROUTER, "sim-eth", 1, x.c.Accts[0].Addr, nil); err != nil {
		return nil, err
	}
	now := uint64(time.Now().Unix())
	height := rootHeight(net, int64(rng.Intn(1000)))
	diff := new(big.Int).Lsh(big.NewInt(1), uint(40+rng.Intn(16)))
	gas := uint64(8_000_000 + rng.Intn(20_000_000))
	x.tip = x.c.MakeRoot(height, diff, now-200000, gas, 1)
	x.c.Seal(x.tip)
	r2 := x.alt.MakeRoot(height, new(big.Int).Add(diff, big.NewInt(12345)), now-200001, gas+1, 2)
	x.alt.Seal(r2)
	eth.SkipSealHook = func() bool { return true }
	return x, nil
}

// Close restores the seal check.
func (x *lcChain) Close() { eth.SkipSealHook = nil }

func (x *lcChain) GenesisTx(variant int) *types.Transaction {
	var hdr []byte
	switch variant {
	case 1:
		hdr = x.alt.Nodes[0].JSON
	case 2: // the same header, encoded differently
		b, err := json.MarshalIndent(x.c.Nodes[0].H, "", "  ")
		if err != nil {
			panic(err)
		}
		hdr = b
	default:
		hdr = x.c.Nodes[0].JSON
	}
	return x.h.Operator(chain.HeaderSync, hscom.SYNC_GENESIS_HEADER, chain.Args(&hscom.SyncGenesisHeaderParam{ChainID: x.id, GenesisHeader: hdr}))
}

func (x *lcChain) spec() Spec {
	return Spec{Dt: uint64(1 + x.rng.Intn(25)), Uncles: x.rng.Chance(0.2), GasSel: int64(x.rng.Intn(60)), LimSel: int64(x.rng.Intn(1 << 20)), Salt: int64(x.rng.Intn(1 << 15))}
}

func (x *lcChain) syncTx(hs [][]byte) *types.Transaction {
	x.relayer++
	rel := x.h.User(1 + x.relayer%3)
	return x.h.Signed(chain.HeaderSync, hscom.SYNC_BLOCK_HEADER, chain.Args(&hscom.SyncBlockHeaderParam{ChainID: x.id, Address: rel.Address, Headers: hs}), rel)
}

func (x *lcChain) NextHeaders(k int) *types.Transaction {
	var hs [][]byte
	for i := 0; i < k; i++ {
		n := x.c.Add(x.tip, kindHonest, x.spec())
		x.c.Seal(n)
		x.c.selfCheck(n)
		hs = append(hs, n.JSON)
		x.tip = n
	}
	return x.syncTx(hs)
}

func (x *lcChain) StatePrefixes() [][]byte {
	var out [][]byte
	for _, k := range [][]byte{keyGenesis(x.id), keyHeader(x.id, nil), keyMain(x.id, 0)[:len(hscom.MAIN_CHAIN)+8], keyCur(x.id)} {
		out = append(out, append(append([]byte(nil), chain.HeaderSync[:]...), k...))
	}
	return out
}

// Timestamped: eth.SyncBlockHeader reads time.Now() (a header may be at most 15 s ahead).
func (x *lcChain) Timestamped() bool { return true }

// FutureHeader syncs one otherwise valid child of the tip dated aheadSec after time.Now().
// The tip does not move (the next NextHeaders call forks from the same parent).
func (x *lcChain) FutureHeader(aheadSec int64) *types.Transaction {
	sp := x.spec()
	sp.Dt = 1
	sp.AbsTime = uint64(time.Now().Unix() + aheadSec)
	n := x.c.Add(x.tip, kindFuture, sp)
	x.c.Seal(n)
	x.c.selfCheck(n)
	return x.syncTx([][]byte{n.JSON})
}

func init() { lc.Register(driver{}) }
