package lceth

import (
	"bytes"
	"encoding/json"
	"fmt"
	"math/big"
	"strings"

	"github.com/ethereum/go-ethereum/common/hexutil"
	"github.com/ethereum/go-ethereum/crypto"
	"github.com/ethereum/go-ethereum/light"
	"github.com/ethereum/go-ethereum/rlp"
	"github.com/polynetwork/poly/common"
	"github.com/polynetwork/poly/merkle"
	ccom "github.com/polynetwork/poly/native/service/cross_chain_manager/common"
	ccmeth "github.com/polynetwork/poly/native/service/cross_chain_manager/eth"

	"polysim/chain"
	"polysim/engines/e1"
	"polysim/kernel"
)

// proof mutations (what a faulty or malicious relayer does to an eth_getProof answer)
const (
	mutNone = iota
	mutReorderAccount
	mutReorderStorage
	mutDuplicateNodes
	mutDropAccountNode
	mutDropStorageNode
	mutKeepPrefix
	mutForeignAccountProof // account proof + fields of another account under the CCMC's address
	mutOtherContract       // a fully valid proof for another contract
	mutOtherSlot           // valid proof for another slot of the CCMC, message unchanged
	mutKeyProofMismatch    // own slot key, nodes of another slot
	mutAlterMessage
	mutOtherMessage
	mutEmptyAccountProof
	mutStorageProofCount
	mutStorageHashSwapped
	mutAccountFieldAltered
	mutJunkNodeAppended
	mutHeightShift
	mutForeignStorageReal       // genuine CCMC account proof, storageHash + storage proof of ANOTHER contract's real storage trie
	mutForeignStorageFabricated // genuine CCMC account proof, storageHash + storage proof of a trie made up by the relayer
	numMuts
)

var mutNames = [...]string{"none", "reorder-account-nodes", "reorder-storage-nodes", "duplicate-nodes", "drop-account-node", "drop-storage-node", "keep-prefix-only",
	"foreign-account-proof", "other-contract", "other-slot", "key-proof-mismatch", "altered-message", "other-message", "empty-account-proof", "storage-proof-count",
	"storage-hash-swapped", "account-field-altered", "junk-node-appended", "height-shift", "foreign-storage-root-real", "foreign-storage-root-fabricated"}

func mutPreserves(m int) bool {
	return m == mutNone || m == mutReorderAccount || m == mutReorderStorage || m == mutDuplicateNodes || m == mutJunkNodeAppended
}

type impCase struct {
	dep     *Deposit
	node    *Node
	mode    int
	mut     int
	param   *ccom.EntranceParam
	msg     []byte
	wantOK  int // by construction: 1 = proof valid against node's state root, 0 = not, -1 = unknown
	conf    int64
	stored  bool
	canon   bool
	removed bool
}

func reformat(s string, f int64) string {
	switch f {
	case 1:
		return strings.TrimPrefix(s, "0x")
	case 2:
		return "0x" + strings.ToUpper(strings.TrimPrefix(s, "0x"))
	}
	return s
}

func rotate(l []string, k int64) []string {
	if len(l) < 2 {
		return l
	}
	out := make([]string, 0, len(l))
	if k%2 == 0 { // reverse
		for i := len(l) - 1; i >= 0; i-- {
			out = append(out, l[i])
		}
		return out
	}
	r := int(1 + mod(k, int64(len(l)-1)))
	return append(append(out, l[r:]...), l[:r]...)
}

func dropAt(l []string, k int64) []string {
	if len(l) == 0 {
		return l
	}
	i := int(mod(k, int64(len(l))))
	return append(append([]string{}, l[:i]...), l[i+1:]...)
}

// c23 is the per-run state of the deposit check.
type c23 struct {
	w        *world
	accepted map[string]bool // cross-chain ids already accepted (reference done-set)
	nAccept  int
	nForged  int
	sig      []byte
}

// pickNode resolves an "imp" step's block choice against the committed light-client state.
func (x *c23) pickNode(mode int, sel int64) (*Node, int) {
	w := x.w
	v := w.h.View()
	cur, head, ok := w.t.HeadOf(v)
	var canon []*Node
	if ok && head != nil {
		for n := head; n != nil; n = n.Parent {
			canon = append([]*Node{n}, canon...)
		}
	}
	honest := func() []*Node {
		var l []*Node
		for _, n := range w.c.Nodes {
			if !byz(n.Kind) {
				l = append(l, n)
			}
		}
		return l
	}
	pick := func(l []*Node) *Node { return l[mod(sel, int64(len(l)))] }
	switch {
	case mode <= 3 && len(canon) > 0:
		conf := int64(w.bw) + int64(mode) - 2
		target := int64(cur) - conf + 1
		rootNum := int64(w.c.Nodes[0].H.Number.Uint64())
		if target >= rootNum && target <= int64(cur) {
			return canon[target-rootNum], mode
		}
		if target == int64(cur)+1 { // zero confirmations: a block the light client has not seen yet / above the head
			var l []*Node
			for _, n := range head.Children {
				if !byz(n.Kind) {
					l = append(l, n)
				}
			}
			if len(l) > 0 {
				return pick(l), mode
			}
		}
		return pick(honest()), 5
	case mode == 4:
		var l []*Node
		for _, n := range w.c.Nodes {
			if !byz(n.Kind) && w.t.Stored(n) && head != nil && !IsAncestor(n, head) {
				l = append(l, n)
			}
		}
		if len(l) > 0 {
			return pick(l), 4
		}
		return pick(honest()), 5
	case mode >= 6 && len(canon) > 0:
		var l []*Node
		for _, n := range canon {
			if int64(cur)-int64(n.H.Number.Uint64())+1 >= int64(w.bw) {
				l = append(l, n)
			}
		}
		if len(l) > 0 {
			return pick(l), 6
		}
	}
	return pick(honest()), 5
}

// buildImport turns an "imp" step [mode, sel, depSel, mut, mutArg, fmt] into a transaction.
func (x *c23) buildImport(st kernel.Step) *pend {
	w := x.w
	if len(w.c.Deps) == 0 {
		return nil
	}
	node, mode := x.pickNode(int(mod(st.Arg(0), 8)), st.Arg(1))
	var dep *Deposit
	if len(node.State.deps) > 0 && st.Arg(2)&0x100 == 0 {
		dep = w.c.Deps[node.State.deps[mod(st.Arg(2), int64(len(node.State.deps)))]]
	} else {
		dep = w.c.Deps[mod(st.Arg(2), int64(len(w.c.Deps)))]
	}
	mut, ma := int(mod(st.Arg(3), numMuts)), st.Arg(4)
	pr := node.State.Prove(dep.Acct, dep.Slot)
	msg := append([]byte(nil), dep.Msg...)
	height := node.H.Number.Uint64()
	sp := &pr.StorageProofs[0]
	other := dep // another deposit (the same one only if there is no other)
	if nd := int64(len(w.c.Deps)); nd > 1 {
		other = w.c.Deps[mod(int64(dep.Idx)+1+mod(ma, nd-1), nd)]
	}
	switch mut {
	case mutReorderAccount:
		pr.AccountProof = rotate(pr.AccountProof, ma)
	case mutReorderStorage:
		sp.Proof = rotate(sp.Proof, ma)
	case mutDuplicateNodes:
		pr.AccountProof = append(pr.AccountProof, pr.AccountProof...)
		if len(sp.Proof) > 0 {
			sp.Proof = append([]string{sp.Proof[len(sp.Proof)-1]}, sp.Proof...)
		}
	case mutDropAccountNode:
		pr.AccountProof = dropAt(pr.AccountProof, ma)
	case mutDropStorageNode:
		sp.Proof = dropAt(sp.Proof, ma)
	case mutKeepPrefix:
		if ma%2 == 0 && len(pr.AccountProof) > 0 {
			pr.AccountProof = pr.AccountProof[:len(pr.AccountProof)-1]
		} else if len(sp.Proof) > 0 {
			sp.Proof = sp.Proof[:len(sp.Proof)-1]
		}
	case mutForeignAccountProof:
		o := node.State.Prove(1+int(mod(ma, int64(len(w.c.Accts)-1))), dep.Slot)
		if ma&16 == 0 { // the other account's nodes, the CCMC's fields
			pr.AccountProof = o.AccountProof
		} else { // the other account's nodes and fields, the CCMC's address
			o.Address = pr.Address
			o.StorageProofs = pr.StorageProofs
			pr = o
			sp = &pr.StorageProofs[0]
		}
	case mutOtherContract:
		pr = node.State.Prove(1+int(ma&1), dep.Slot) // the other contract (or a filler account)
		sp = &pr.StorageProofs[0]
	case mutOtherSlot:
		pr = node.State.Prove(dep.Acct, other.Slot)
		sp = &pr.StorageProofs[0]
	case mutKeyProofMismatch:
		o := node.State.Prove(dep.Acct, other.Slot)
		sp.Proof = o.StorageProofs[0].Proof
	case mutAlterMessage:
		msg[len(msg)-1-int(mod(ma, 6))] ^= byte(1 << uint(mod(ma, 8)))
	case mutOtherMessage:
		msg = append([]byte(nil), other.Msg...)
	case mutEmptyAccountProof:
		pr.AccountProof = nil
	case mutStorageProofCount:
		if ma%2 == 0 {
			pr.StorageProofs = nil
		} else {
			pr.StorageProofs = append(pr.StorageProofs, pr.StorageProofs[0])
		}
	case mutStorageHashSwapped:
		pr.StorageHash = node.State.storRoot[1-dep.Acct].Hex()
	case mutAccountFieldAltered:
		if ma%3 == 0 {
			pr.Nonce = hexutil.EncodeUint64(w.c.Accts[dep.Acct].Nonce + 1)
		} else if ma%3 == 2 {
			h := crypto.Keccak256Hash([]byte(pr.CodeHash))
			pr.CodeHash = h.Hex()
		} else {
			b, _ := new(big.Int).SetString(strings.TrimPrefix(pr.Balance, "0x"), 16)
			pr.Balance = hexutil.EncodeBig(b.Add(b, big.NewInt(1)))
		}
	case mutJunkNodeAppended:
		junk, _ := rlp.EncodeToBytes([]interface{}{[]byte{0x20, byte(ma)}, crypto.Keccak256([]byte{byte(ma)})})
		pr.AccountProof = append(pr.AccountProof, hexutil.Encode(junk))
		if len(pr.StorageProofs) == 1 {
			pr.StorageProofs[0].Proof = append([]string{hexutil.Encode(junk)}, pr.StorageProofs[0].Proof...)
		}
	case mutForeignStorageReal, mutForeignStorageFabricated:
		// The account proof and the claimed nonce/balance/codeHash are the registered CCMC's, proven
		// under the header's state root; storageHash and the storage proof belong to another trie
		// that does hold keccak256(message) at the slot. Only the comparison of the claimed storage
		// root with the proven account ties the storage proof to the block.
		var fd *Deposit
		if mut == mutForeignStorageReal {
			var cand []*Deposit
			for _, di := range node.State.deps {
				if d := w.c.Deps[di]; d.Acct == 1 && d.Short == nil {
					cand = append(cand, d)
				}
			}
			if len(cand) > 0 {
				fd = cand[mod(ma, int64(len(cand)))]
			}
		}
		pr = node.State.Prove(0, dep.Slot)
		sp = &pr.StorageProofs[0]
		if fd != nil {
			o := node.State.Prove(1, fd.Slot)
			pr.StorageHash = o.StorageHash
			pr.StorageProofs = o.StorageProofs
			msg = append([]byte(nil), fd.Msg...)
			dep = fd
		} else {
			mut = mutForeignStorageFabricated
			x.nForged++
			msg = depositMsgID(w.run.Plan.Seed, 1000+x.nForged, 1000+x.nForged, dstChainID, ma) // a message nobody deposited, with a fresh id
			t := newTrie()
			fake := &Deposit{Msg: msg}
			t.Update(crypto.Keccak256(dep.Slot[:]), storageValue(fake))
			for i := int64(0); i < 1+mod(ma, 4); i++ {
				s := slotOf(int(500 + i))
				t.Update(crypto.Keccak256(s[:]), storageValue(&Deposit{Msg: []byte{byte(i), byte(ma)}}))
			}
			var nl light.NodeList
			if err := t.Prove(crypto.Keccak256(dep.Slot[:]), 0, &nl); err != nil {
				panic(err)
			}
			pr.StorageHash = t.Hash().Hex()
			sp.Key, sp.Proof = dep.Slot.Hex(), hexList(nl)
		}
	case mutHeightShift:
		if ma%2 == 0 || height == 0 {
			height++
		} else {
			height--
		}
	}
	if f := mod(st.Arg(5), 3); f != 0 {
		pr.Address = reformat(pr.Address, f)
		pr.StorageHash = reformat(pr.StorageHash, f)
		pr.CodeHash = reformat(pr.CodeHash, f)
		for i := range pr.AccountProof {
			pr.AccountProof[i] = reformat(pr.AccountProof[i], f)
		}
		for i := range pr.StorageProofs {
			pr.StorageProofs[i].Key = reformat(pr.StorageProofs[i].Key, f)
			for j := range pr.StorageProofs[i].Proof {
				pr.StorageProofs[i].Proof[j] = reformat(pr.StorageProofs[i].Proof[j], f)
			}
		}
	}
	pj, err := json.Marshal(pr)
	if err != nil {
		panic(err)
	}
	rel := w.h.User(1 + w.nTx%3)
	w.nTx++
	param := &ccom.EntranceParam{SourceChainID: srcChainID, Height: uint32(height), Proof: pj, RelayerAddress: rel.Address[:], Extra: msg}
	ic := &impCase{dep: dep, node: node, mode: mode, mut: mut, param: param, msg: msg, wantOK: 0}
	if dep.Acct == 0 && node.State.Has(dep.Idx) && mutPreserves(mut) && dep.Short == nil {
		ic.wantOK = 1
	}
	if other == dep || mut == mutKeyProofMismatch || mut == mutHeightShift || (mut == mutOtherContract && dep.Acct == 1) || mut == mutForeignAccountProof && dep.Acct == 1 {
		ic.wantOK = -1 // degenerate tries can make these verify; the reference verifier alone decides
	}
	v := w.h.View()
	if cur, head, ok := w.t.HeadOf(v); ok && head != nil {
		ic.conf = int64(cur) - int64(height) + 1
		ic.stored = w.t.Stored(node)
		ic.canon = IsAncestor(node, head)
		ic.removed = ic.stored && !ic.canon && w.t.wasCanonical[node.Idx]
	}
	tx := w.h.Signed(chain.CrossChain, ccom.IMPORT_OUTER_TRANSFER_NAME, chain.Args(param), rel)
	desc := fmt.Sprintf("import[dep %d acct %d from #%d height %d mode %d conf %d mut %s]", dep.Idx, dep.Acct, node.Idx, height, mode, ic.conf, mutNames[mut])
	return &pend{tx: tx, kind: "import", imp: ic, desc: desc}
}

// expect is the reference decision for one import, evaluated on the state the transaction
// saw: accepted <=> block canonical with enough confirmations, account proof of the registered
// CCMC verifies against that header's state root, storage proof verifies, proven value =
// keccak256(message) (plus the entrance gates: not yet accepted, destination registered).
func (x *c23) expect(pre sview, p *ccom.EntranceParam) (bool, string) {
	w := x.w
	sc := sideChainOf(pre, p.SourceChainID)
	if sc == nil || blackedIn(pre, p.SourceChainID) {
		return false, "source-gate"
	}
	cur, _, ok := w.t.HeadOf(pre)
	if !ok {
		return false, "no-tracked-head"
	}
	h := uint64(p.Height)
	if h > cur || cur-h+1 < sc.BlocksToWait {
		return false, "not-enough-confirmations"
	}
	blk := w.t.CanonicalAt(pre, h)
	if blk == nil {
		return false, "no-canonical-block-at-height"
	}
	var pr ccmeth.ETHProof
	if err := json.Unmarshal(p.Proof, &pr); err != nil {
		return false, "malformed-proof"
	}
	if len(pr.StorageProofs) != 1 {
		return false, "not-exactly-one-storage-proof"
	}
	addr, ok1 := unhex(pr.Address)
	if !ok1 || !bytes.Equal(addr, sc.CCMCAddress) {
		return false, "not-the-registered-contract"
	}
	nodes := func(l []string) ([][]byte, bool) {
		var out [][]byte
		for _, s := range l {
			b, ok := unhex(s)
			if !ok {
				return nil, false
			}
			out = append(out, b)
		}
		return out, true
	}
	an, ok1 := nodes(pr.AccountProof)
	nonce, ok2 := unhexQuantity(pr.Nonce)
	bal, ok3 := unhexQuantity(pr.Balance)
	sh, ok4 := unhex(pr.StorageHash)
	ch, ok5 := unhex(pr.CodeHash)
	if !(ok1 && ok2 && ok3 && ok4 && ok5) || len(sh) != 32 || len(ch) != 32 {
		return false, "malformed-proof"
	}
	claimed, err := rlp.EncodeToBytes([]interface{}{nonce, bal, sh, ch})
	if err != nil {
		return false, "malformed-proof"
	}
	val, st := refVerifyProof(blk.H.Root[:], crypto.Keccak256(addr), an)
	if st != mptValue || !bytes.Equal(val, claimed) {
		return false, "account-proof-does-not-verify"
	}
	sn, ok1 := nodes(pr.StorageProofs[0].Proof)
	key, ok2 := unhex(pr.StorageProofs[0].Key)
	if !ok1 || !ok2 || len(key) > 32 {
		return false, "malformed-proof"
	}
	sval, st := refVerifyProof(sh, crypto.Keccak256(leftPad32(key)), sn)
	if st != mptValue {
		return false, "storage-proof-does-not-verify"
	}
	var word []byte
	if err := rlp.DecodeBytes(sval, &word); err != nil || len(word) > 32 || !bytes.Equal(leftPad32(word), crypto.Keccak256(p.Extra)) {
		return false, "value-is-not-hash-of-message"
	}
	mp := new(ccom.MakeTxParam)
	if err := mp.Deserialization(common.NewZeroCopySource(p.Extra)); err != nil {
		return false, "undecodable-message"
	}
	if x.accepted[string(mp.CrossChainID)] {
		return false, "already-accepted"
	}
	if sideChainOf(pre, mp.ToChainID) == nil || blackedIn(pre, mp.ToChainID) {
		return false, "destination-gate"
	}
	return true, ""
}

func (x *c23) onImport(tr *e1.TxTrace, pre, post sview, p *pend) {
	w, run, ic := x.w, x.w.run, p.imp
	want, why := x.expect(pre, ic.param)
	// the reference verifier and the construction must agree (else the harness is wrong)
	if blk := w.t.CanonicalAt(pre, uint64(ic.param.Height)); blk == ic.node && ic.wantOK >= 0 {
		proofOK := why != "account-proof-does-not-verify" && why != "storage-proof-does-not-verify" && why != "value-is-not-hash-of-message" && why != "not-the-registered-contract" &&
			why != "malformed-proof" && why != "not-exactly-one-storage-proof"
		if why == "not-enough-confirmations" || why == "no-canonical-block-at-height" {
			proofOK = ic.wantOK == 1 // not evaluated
		}
		if (ic.wantOK == 1) != proofOK {
			panic(fmt.Sprintf("lceth: reference verifier says %q for a proof that is valid=%v by construction (%s)", why, ic.wantOK == 1, p.desc))
		}
	}
	run.Fault("proof_mutation:" + mutNames[ic.mut])
	switch {
	case ic.mode <= 3:
		run.Fault(fmt.Sprintf("import_at_confirmations_required%+d", ic.mode-2))
	case ic.mode == 4:
		run.Fault("proof_for_noncanonical_block")
		run.Probe("proof_for_noncanonical_block")
	}
	if ic.removed {
		run.Fault("proof_for_block_removed_by_reorg")
	}
	if tr.OK != want {
		if tr.OK {
			run.Fail("C23", "invalid-deposit-accepted:"+why, "%s was accepted although the reference rejects it: %s (confirmations %d of %d, block stored=%v canonical=%v)", p.desc, why, ic.conf, w.bw, ic.stored, ic.canon)
		} else {
			run.Fail("C23", "valid-deposit-rejected", "%s was rejected although its block is canonical with %d confirmations (need %d) and account proof, storage proof and value all verify", p.desc, ic.conf, w.bw)
		}
		return
	}
	x.sig = append(x.sig, byte(ic.mode), byte(ic.mut), boolByte(tr.OK))
	if ic.dep.Short != nil && ic.dep.Ground && mutPreserves(ic.mut) && why == "value-is-not-hash-of-message" {
		// a valid proof of a short non-hash value, with a message whose hash merely ENDS in it
		run.Fault(fmt.Sprintf("ground_message_for_%d_byte_slot_value", len(ic.dep.Short)))
		if !tr.OK {
			run.Probe("ground_message_against_short_value_rejected")
		}
	}
	if !tr.OK && (ic.mut == mutForeignStorageReal || ic.mut == mutForeignStorageFabricated) && why == "account-proof-does-not-verify" {
		// everything else held (confirmed canonical block, registered contract): only the storage root tie refused it
		run.Probe("foreign_storage_root_rejected")
		run.Probe("rejected_with:" + mutNames[ic.mut])
	}
	if !tr.OK {
		run.Probe("rejected:" + why)
		if why == "not-enough-confirmations" && ic.conf == int64(w.bw)-1 && ic.wantOK == 1 && ic.canon {
			run.Probe("rejected_one_confirmation_short")
		}
		if ic.removed && ic.wantOK == 1 {
			run.Probe("rejected_after_reorg_removed_block")
		}
		return
	}
	// accepted: the stored request carries exactly the submitted message
	x.nAccept++
	run.Probe("deposit_accepted")
	if ic.conf == int64(w.bw) {
		run.Probe("confirmation_boundary_exact")
	}
	if ic.dep.LeadZero && bytes.Equal(ic.msg, ic.dep.Msg) {
		run.Probe("accepted_message_hash_with_leading_zero_byte")
	}
	if ic.mut != mutNone {
		run.Probe("accepted_with:" + mutNames[ic.mut])
	}
	mp := new(ccom.MakeTxParam)
	mp.Deserialization(common.NewZeroCopySource(ic.msg))
	x.accepted[string(mp.CrossChainID)] = true
	relay := tr.Tx.Hash()
	req := requestIn(post, mp.ToChainID, relay.ToArray())
	if req == nil {
		run.Fail("C23", "accepted-message-not-stored", "%s accepted but no request under (chain %d, relay tx)", p.desc, mp.ToChainID)
		return
	}
	mv := new(ccom.ToMerkleValue)
	if err := mv.Deserialization(common.NewZeroCopySource(req)); err != nil || mv.MakeTxParam == nil {
		run.Fail("C23", "accepted-message-undecodable", "%s: stored request does not decode: %v", p.desc, err)
		return
	}
	sink := common.NewZeroCopySink(nil)
	mv.MakeTxParam.Serialization(sink)
	if !bytes.Equal(sink.Bytes(), ic.msg) || mv.FromChainID != srcChainID || !bytes.Equal(mv.TxHash, relay.ToArray()) {
		run.Fail("C23", "accepted-message-differs-from-submitted", "%s: stored request carries %x (from chain %d), submitted message %x", p.desc, sink.Bytes(), mv.FromChainID, ic.msg)
		return
	}
	if len(tr.Cross) != 1 || merkle.HashLeaf(req) != tr.Cross[0] {
		run.Fail("C23", "accepted-message-leaf-mismatch", "%s: %d cross-state leaves, or the leaf is not the hash of the stored request", p.desc, len(tr.Cross))
		return
	}
	if !doneIn(post, srcChainID, mp.CrossChainID) {
		run.Fail("C23", "accepted-without-done-mark", "%s accepted without a done mark", p.desc)
	}
}

func boolByte(b bool) byte {
	if b {
		return 1
	}
	return 0
}

func genC23(rng *kernel.RNG, idx int, tier string) *kernel.Plan {
	g := newTreeGen(rng)
	cfg := baseCfg(rng)
	cfg["bw"] = int64(1 + rng.Intn(5))
	shape := []int{0, 1, 2, 3, 3, 2}[idx%6]
	g.shape(shape)
	cfg["shape"] = int64(shape)
	nByz := 0
	if rng.Chance(0.3) {
		nByz = 1
	}
	g.extras(rng.Intn(3), 0, nByz)
	steps := g.steps
	// deposits: biased to early blocks so that they get confirmed
	nd := 3 + rng.Intn(8)
	for i := 0; i < nd; i++ {
		e := rng.Intn(len(g.ext))
		if rng.Chance(0.5) {
			e = rng.Intn(minInt(len(g.ext), 4))
		}
		acct := 0
		if rng.Chance(0.22) {
			acct = 1
		}
		kind := rng.Intn(8)
		switch r := rng.Intn(100); {
		case r < 12:
			kind = depShort1
		case r < 15:
			kind = depShort2
		case r < 21:
			kind = depShortEdge
		case r < 29:
			kind = depLeadZero
		}
		steps = append(steps, kernel.Step{Op: "dep", A: []int64{int64(e), int64(acct), int64(kind), int64(rng.Intn(1 << 12))}})
	}
	imp := func(mode int) kernel.Step {
		mut := mutNone
		if rng.Chance(0.55) {
			mut = 1 + rng.Intn(numMuts-1)
		}
		f := 0
		if rng.Chance(0.2) {
			f = 1 + rng.Intn(2)
		}
		dsel := rng.Intn(64)
		if rng.Chance(0.1) {
			dsel |= 0x100
		}
		return kernel.Step{Op: "imp", A: []int64{int64(mode), int64(rng.Intn(1000)), int64(dsel), int64(mut), int64(rng.Intn(1000)), int64(f)}}
	}
	faults := map[string]bool{"reorder": rng.Chance(0.25), "dup": rng.Chance(0.3), "restart": rng.Chance(0.3)}
	for _, st := range g.schedule(faults) {
		steps = append(steps, st)
		if st.Op == "blk" && rng.Chance(0.55) {
			k := 1 + rng.Intn(3)
			for i := 0; i < k; i++ {
				m := rng.Intn(8)
				s := imp(m)
				if m <= 3 && rng.Chance(0.7) {
					s.A[3] = mutNone // boundary probes with an untouched proof
				}
				steps = append(steps, s)
			}
			steps = append(steps, kernel.Step{Op: "blk"})
		}
	}
	for i := 0; i < 4+rng.Intn(6); i++ {
		steps = append(steps, imp(rng.Intn(8)))
		if rng.Chance(0.4) {
			steps = append(steps, kernel.Step{Op: "blk"})
		}
	}
	return &kernel.Plan{Cfg: cfg, Steps: steps}
}

func execC23(run *kernel.Run) {
	inBubble(func() {
		func() {
			w := newWorld(run)
			defer w.close()
			x := &c23{w: w, accepted: map[string]bool{}}
			w.onImp = x.onImport
			w.buildTree(run.Plan.Steps)
			if !w.installRoot() {
				return
			}
			ok := w.runSteps(run.Plan.Steps, func(st kernel.Step) {
				for _, p := range w.q { // resolve against the state the import will see
					if p.kind == "sync" {
						if !w.flush() {
							return
						}
						break
					}
				}
				if run.Failed() {
					return
				}
				if p := x.buildImport(st); p != nil {
					w.q = append(w.q, p)
				}
			})
			if !ok {
				return
			}
			w.t.Finish()
			w.summary()
			if x.nAccept > 0 && len(x.sig) > 3 {
				run.Nontrivial(x.sig)
			}
			if m, ok := run.Sample.(map[string]interface{}); ok {
				m["blocks_to_wait"] = w.bw
				m["deposits"] = len(w.c.Deps)
				m["imports"] = len(x.sig) / 3
				m["accepted"] = x.nAccept
			}
			run.Probes["__evals"] = len(x.sig) / 3
		}()
	})
}

func init() {
	kernel.Register(&kernel.Check{
		ID: "C23", Level: "exploration", Engine: "E1 cluster + lceth (simulated Ethereum PoW chain with EVM state tries)",
		Rule: "case = one import (ImportExTransfer through the ETH router) of a deposit of the simulated EVM state: block tree as in C27 (reorg shapes), 3-10 deposits (slot -> keccak256(message)) written into the " +
			"CCMC's or another contract's storage at chosen blocks (some CCMC slots hold short NON-hash values 0x01..0xff, 2 bytes, 0x00, 0x0100, 0x80, 0x7f and are claimed with a message ground so that its hash ends in the value; some genuine messages are ground to a hash with a leading zero byte), BlocksToWait 1-5; the relayer follows the tree (forks, reorgs, restarts) and submits eth_getProof answers built with go-ethereum's trie.Prove: " +
			"at confirmations BlocksToWait-2/-1/0/+1 relative to the tracked head, for stored non-canonical blocks, for blocks removed by a reorg, for blocks the light client has not seen, with 20 proof " +
			"mutations (re-ordered/duplicated/dropped/truncated node lists, foreign account proof, foreign storage root (another contract's real storage trie / a fabricated trie, under the CCMC's genuine account proof), other contract, other slot, key/proof mismatch, altered/other message, swapped storage hash, altered account " +
			"field, junk node, shifted height, wrong proof counts) and 3 hex formats; every import is judged in BOTH directions against a reference (own MPT verifier over the node set, confirmations from the " +
			"tracked head, registered CCMC and BlocksToWait from the registry). evaluations = imports; non-trivial run = at least one accepted and one other import; distinct by the (mode, mutation, outcome) sequence",
		Real: []string{"native/service/cross_chain_manager entrance (ImportExTransfer, MakeTransaction) and eth handler (verifyFromEthTx, VerifyMerkleProof, CheckProofResult)", "native/service/header_sync/eth light client", "side_chain_manager registry", "go-ethereum trie/rlp/crypto (trusted dependency)", "E1 harness (per-transaction tracing, re-execution, replicas)"},
		Stub: []string{"Ethash seal verification (hook H4)", "Ethereum node = tree + state generator answering eth_getProof", "VBFT server / p2p"},
		Assumptions: []string{"confirmations of a block at height h under a head at height H are H-h+1 (the block itself counts)", "BlocksToWait >= 1", "a deposit is judged modulo the entrance gates: a message already accepted (at-most-once, C20) or addressed to an unregistered destination (C21) is expected to be rejected",
			"a proof is a set of nodes: re-ordered, duplicated or supernumerary nodes do not invalidate it", "messages are well-formed MakeTxParam encodings without trailing bytes"},
		QuickRuns: 128, ThoroughRuns: 9000, QuickCap: 60, ThoroughCap: 840,
		RequiredProbes: []string{"honest_headers_mostly_accepted", "confirmation_boundary_exact", "rejected_one_confirmation_short", "proof_for_noncanonical_block", "rejected_after_reorg_removed_block", "deposit_accepted",
			"accepted_with:reorder-account-nodes", "accepted_with:duplicate-nodes", "rejected:not-the-registered-contract", "rejected:value-is-not-hash-of-message", "rejected:account-proof-does-not-verify", "rejected:storage-proof-does-not-verify",
			"ground_message_against_short_value_rejected", "accepted_message_hash_with_leading_zero_byte", "foreign_storage_root_rejected",
			"rejected_with:foreign-storage-root-real", "rejected_with:foreign-storage-root-fabricated"},
		Generate: genC23,
		Execute:  execC23,
	})
}
