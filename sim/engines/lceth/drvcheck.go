package lceth

import (
	"bytes"
	"fmt"
	"sort"

	"github.com/polynetwork/poly/common"

	"polysim/engines/e1"
	"polysim/kernel"
)

// SMOKE-LCETH exercises the lc.Driver of this package the way the router-generic checks
// (C19, C16-clock) will: it is a self-test of the driver, not a property verdict.
func init() {
	kernel.Register(&kernel.Check{
		ID: "SMOKE-LCETH", Level: "exploration", Engine: "lceth lc.Driver self-test",
		Rule:      "install the trust root, try the two re-installation variants (must fail and leave every key under StatePrefixes byte-identical), sync headers, sync a header 10 s ahead (accepted) and 100 s ahead (rejected)",
		QuickRuns: 6, ThoroughRuns: 24, QuickCap: 60, ThoroughCap: 120,
		RequiredProbes: []string{"reinstall_rejected_state_unchanged", "future_header_within_tolerance_accepted", "future_header_rejected"},
		Generate: func(rng *kernel.RNG, idx int, tier string) *kernel.Plan {
			return &kernel.Plan{Cfg: map[string]int64{"net": []int64{1, 2, 77}[idx%3], "k": int64(1 + rng.Intn(5))}, Steps: []kernel.Step{{Op: "drive"}}}
		},
		Execute: func(run *kernel.Run) {
			var perr interface{}
			kernel.InBubble(func() {
				defer func() {
					if e := recover(); e != nil {
						perr = e
					}
				}()
				h, err := e1.NewHarness(run, 4, 0, uint32(run.Plan.C("net", 77)), 40)
				if err != nil {
					panic(err)
				}
				defer h.Close()
				ch, err := driver{}.NewChain(h, 7, run.Plan.Seed)
				if err != nil {
					panic(err)
				}
				defer ch.(*lcChain).Close()
				scan := func() string {
					var keys []string
					all := map[string][]byte{}
					for _, p := range ch.StatePrefixes() {
						var c common.Address
						copy(c[:], p[:20])
						m, err := h.Scan(c, p[20:])
						if err != nil {
							panic(err)
						}
						for k, v := range m {
							all[k] = v
						}
					}
					for k := range all {
						keys = append(keys, k)
					}
					sort.Strings(keys)
					var b bytes.Buffer
					for _, k := range keys {
						fmt.Fprintf(&b, "%x=%x;", k, all[k])
					}
					return b.String()
				}
				one := func(name string, want bool, tx interface{ Hash() common.Uint256 }, exec func() ([]*e1.TxTrace, bool)) bool {
					tr, ok := exec()
					if !ok {
						return false
					}
					run.Logf("%s ok=%v", name, tr[0].OK)
					if tr[0].OK != want {
						panic(fmt.Sprintf("driver self-test: %s ok=%v, want %v", name, tr[0].OK, want))
					}
					return true
				}
				g0 := ch.GenesisTx(0)
				if !one("genesis", true, g0, func() ([]*e1.TxTrace, bool) { return h.Exec(g0) }) {
					return
				}
				before := scan()
				if before == "" {
					panic("driver self-test: StatePrefixes cover nothing after the trust root was installed")
				}
				for v := 0; v < 3; v++ {
					g := ch.GenesisTx(v)
					if !one(fmt.Sprintf("genesis-again-%d", v), false, g, func() ([]*e1.TxTrace, bool) { return h.Exec(g) }) {
						return
					}
				}
				if scan() != before {
					panic("driver self-test: state under StatePrefixes changed by rejected re-installations")
				}
				run.Probe("reinstall_rejected_state_unchanged")
				n := ch.NextHeaders(int(run.Plan.C("k", 2)))
				if !one("headers", true, n, func() ([]*e1.TxTrace, bool) { return h.Exec(n) }) {
					return
				}
				if scan() == before {
					panic("driver self-test: syncing headers left the state under StatePrefixes unchanged")
				}
				f1 := ch.FutureHeader(10)
				if !one("future+10", true, f1, func() ([]*e1.TxTrace, bool) { return h.Exec(f1) }) {
					return
				}
				run.Probe("future_header_within_tolerance_accepted")
				f2 := ch.FutureHeader(100)
				if !one("future+100", false, f2, func() ([]*e1.TxTrace, bool) { return h.Exec(f2) }) {
					return
				}
				run.Probe("future_header_rejected")
				n2 := ch.NextHeaders(2)
				if !one("headers-after-future", true, n2, func() ([]*e1.TxTrace, bool) { return h.Exec(n2) }) {
					return
				}
				run.Nontrivial([]byte(fmt.Sprint(run.Plan.C("net", 0), run.Plan.C("k", 0))))
			})
			if perr != nil {
				panic(perr)
			}
		},
	})
}
