package lctm

// lc.Driver / lc.Chain implementations for the Tendermint-family routers (used by the
// router-generic checks C19 and C16-clock).

import (
	"fmt"

	"github.com/polynetwork/poly/core/types"
	hscom "github.com/polynetwork/poly/native/service/header_sync/common"
	"github.com/polynetwork/poly/native/service/utils"

	"polysim/chain"
	"polysim/engines/e1"
	"polysim/engines/lc"
	"polysim/kernel"
)

type tmDriver struct{ fam *famSpec }

func (d tmDriver) Name() string   { return d.fam.driver }
func (d tmDriver) Router() uint64 { return d.fam.router }

// tmChain is one simulated chain bound to a harness. It follows the light client with honest
// epoch-switch headers; the chain is extended with further validator-set changes on demand.
type tmChain struct {
	h      *e1.Harness
	c      *simChain
	alt    *simChain // an unrelated chain of the same family (variant 1 trust root)
	cursor int64     // height of the last header handed out
	at     uint32    // poly height when cursor was last reset
	// degenerate != 0: this chain's own trust root (variants 0 and 2) is an unusual header that
	// SyncGenesisHeader nevertheless accepts (it validates nothing on write): 1 = no
	// next-validators hash, 2 = a 20-byte next-validators hash, 3 = no validators hash (the
	// header hash, hence the stored block hash, is then empty). Header syncs cannot follow such
	// a root; re-installation attempts must still fail and write nothing.
	degenerate int
}

func (d tmDriver) NewChain(h *e1.Harness, chainID uint64, seed uint64) (lc.Chain, error) {
	c := newSimChain(d.fam, seed, chainID, chainID+1000, 5, 0, false)
	if err := h.RegisterChain(chainID, d.fam.router, fmt.Sprintf("sim-%s-%d", d.fam.driver, chainID), 1, c.ccmc, nil); err != nil {
		return nil, err
	}
	alt := newSimChain(d.fam, seed^0x5a5a5a5a, chainID, chainID+1000, 2, 0, false)
	t := &tmChain{h: h, c: c, alt: alt, cursor: c.sw[0]}
	if m := kernel.Derive(seed, "lctm-degenerate-root", chainID) % 6; m >= 3 {
		t.degenerate = int(m) - 2
	}
	return t, nil
}

func (t *tmChain) genesisTx(bz []byte) *types.Transaction {
	return t.h.Operator(chain.HeaderSync, hscom.SYNC_GENESIS_HEADER, chain.Args(&hscom.SyncGenesisHeaderParam{ChainID: t.c.polyID, GenesisHeader: bz}))
}

func (t *tmChain) GenesisTx(variant int) *types.Transaction {
	switch variant {
	case 1: // another chain's trust root: other keys, other height, other chain id
		return t.genesisTx(t.alt.honest(t.alt.sw[0]).bytes)
	case 2: // the same header, re-encoded with a different (equally valid) commit: only a winning subset signs
		return t.genesisTx(t.root(true))
	}
	return t.genesisTx(t.root(false))
}

// root encodes this chain's trust-root header (otherCommit: signed by a minimal winning
// subset in round 1 instead of by everybody in round 0).
func (t *tmChain) root(otherCommit bool) []byte {
	c := t.c
	if t.degenerate == 0 && !otherCommit {
		return c.honest(c.sw[0]).bytes
	}
	f := c.honestFields(c.sw[0])
	switch t.degenerate {
	case 1:
		f.nextHash = nil
	case 2:
		f.nextHash = f.nextHash[:20]
	case 3:
		f.valsHash = nil
	}
	order := c.b.canonOrder(c.setAt(c.sw[0]), f.version)
	sp := &artefactSpec{f: f, order: order, votes: votesFromMask(len(order), 1<<uint(len(order))-1), appVer: 0, desc: fmt.Sprintf("trust root (degenerate=%d)", t.degenerate)}
	if otherCommit {
		m, _ := pickSubset(order, 0, 0)
		sp.votes, sp.round = votesFromMask(len(order), m), 1
	}
	return c.build(sp).bytes
}

func (t *tmChain) NextHeaders(k int) *types.Transaction {
	p := &hscom.SyncBlockHeaderParam{ChainID: t.c.polyID, Address: t.h.User(1).Address}
	// follow the light client: start after the committed tracked height (after the trust-root
	// height while none is installed); several calls while no block was committed in between
	// (transactions for one block) continue where the previous call stopped
	base := t.c.sw[0]
	if tr := readTracked(t.h.View(), t.c.polyID); tr.ok && tr.chainID == t.c.chainID {
		base = tr.height
	}
	if now := t.h.Height(); now != t.at || t.cursor < base {
		t.at, t.cursor = now, base
	}
	for i := 0; i < k; i++ {
		n := t.c.nextSwitchAfter(t.cursor)
		for n == 0 { // grow the chain without the 9-switch cap of the C30 runs
			t.c.sw = append(t.c.sw[:len(t.c.sw):len(t.c.sw)], t.c.sw[len(t.c.sw)-1]+3)
			next := append([]valDef{}, t.c.sets[len(t.c.sets)-1]...)
			next[0].power += int64(len(t.c.sw))
			t.c.sets = append(t.c.sets, next)
			t.c.registerSet(next)
			t.c.maxH = t.c.sw[len(t.c.sw)-1] + 4
			delete(t.c.cache, t.c.sw[len(t.c.sw)-1])
			n = t.c.nextSwitchAfter(t.cursor)
		}
		p.Headers = append(p.Headers, t.c.honest(n).bytes)
		t.cursor = n
	}
	return t.h.Signed(chain.HeaderSync, hscom.SYNC_BLOCK_HEADER, chain.Args(p), t.h.User(1))
}

func (t *tmChain) StatePrefixes() [][]byte {
	p := append([]byte{}, utils.HeaderSyncContractAddress[:]...)
	p = append(p, []byte(hscom.EPOCH_SWITCH)...)
	p = append(p, utils.GetUint64Bytes(t.c.polyID)...)
	return [][]byte{p}
}

// Timestamped: none of the Tendermint-family handlers reads the wall clock.
func (t *tmChain) Timestamped() bool                              { return false }
func (t *tmChain) FutureHeader(aheadSec int64) *types.Transaction { return nil }

func init() {
	lc.Register(tmDriver{famByName("cosmos-legacy")})
	lc.Register(tmDriver{famByName("okex")})
	lc.Register(tmDriver{famByName("heimdall")})
	lc.Register(cosmosStargateDriver{tmDriver{famByName("cosmos-stargate")}})
}

// cosmosStargateDriver exposes the block-version-11 flavour of the cosmos router as a second driver.
type cosmosStargateDriver struct{ tmDriver }

func (d cosmosStargateDriver) Name() string { return "cosmos-stargate" }
