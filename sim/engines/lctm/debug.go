package lctm

import (
	"fmt"

	ethcrypto "github.com/ethereum/go-ethereum/crypto"
	polylog "github.com/polynetwork/poly/common/log"
	ccmcosmos "github.com/polynetwork/poly/native/service/cross_chain_manager/cosmos"
	hscosmos "github.com/polynetwork/poly/native/service/header_sync/cosmos"
	hsokex "github.com/polynetwork/poly/native/service/header_sync/okex"
	hspolygon "github.com/polynetwork/poly/native/service/header_sync/polygon"
	ptypes "github.com/polynetwork/poly/native/service/header_sync/polygon/types"
	"github.com/tendermint/tendermint/crypto/merkle"
)

func init() {
	if debug {
		polylog.InitLog(polylog.DebugLog, polylog.Stdout)
	}
}

// debugProof (LCTM_DEBUG only) runs the proof the way the handlers do.
func debugProof(fam *famSpec, p *pendTx) (err error) {
	defer func() {
		if r := recover(); r != nil {
			err = fmt.Errorf("PANIC: %v", r)
		}
	}()
	prt := ccmcosmos.ProofRuntime()
	val := p.dep.value
	if fam.okexKeys {
		val = ethcrypto.Keccak256(val)
	}
	if p.kp == "" {
		return prt.VerifyAbsence(&merkle.Proof{Ops: p.ops}, p.arts[0].f.appHash, string(p.dep.value))
	}
	return prt.VerifyValue(&merkle.Proof{Ops: p.ops}, p.arts[0].f.appHash, p.kp, val)
}

// debugVerify (LCTM_DEBUG only, never part of the oracle) asks the handler's own verifier why
// it rejects an artefact.
func debugVerify(fam *famSpec, bz []byte, t tracked) (err error) {
	defer func() {
		if r := recover(); r != nil {
			err = fmt.Errorf("PANIC: %v", r)
		}
	}()
	switch fam.driver {
	case "cosmos":
		var h hscosmos.CosmosHeader
		if err := hscosmos.Cdc.UnmarshalBinaryBare(bz, &h); err != nil {
			return err
		}
		return hscosmos.VerifyCosmosHeader(&h, &hscosmos.CosmosEpochSwitchInfo{Height: t.height, BlockHash: t.blockHash, NextValidatorsHash: t.nextHash, ChainID: t.chainID})
	case "okex":
		var h hsokex.CosmosHeader
		if err := hsokex.NewCDC().UnmarshalBinaryBare(bz, &h); err != nil {
			return err
		}
		return hsokex.VerifyCosmosHeader(&h, &hsokex.CosmosEpochSwitchInfo{Height: t.height, BlockHash: t.blockHash, NextValidatorsHash: t.nextHash, ChainID: t.chainID})
	default:
		var h hspolygon.CosmosHeader
		if err := ptypes.NewCDC().UnmarshalBinaryBare(bz, &h); err != nil {
			return err
		}
		return hspolygon.VerifyCosmosHeader(&h, &hspolygon.CosmosEpochSwitchInfo{Height: t.height, BlockHash: t.blockHash, NextValidatorsHash: t.nextHash, ChainID: t.chainID})
	}
}
