package lctm

// C30: Tendermint-family light clients need a two-thirds power quorum.

import (
	"bytes"
	"encoding/hex"
	"fmt"
	"os"
	"sort"

	"github.com/polynetwork/poly/common"
	cstates "github.com/polynetwork/poly/core/states"
	"github.com/polynetwork/poly/core/types"
	ccom "github.com/polynetwork/poly/native/service/cross_chain_manager/common"
	hscom "github.com/polynetwork/poly/native/service/header_sync/common"
	"github.com/polynetwork/poly/native/service/utils"
	"github.com/tendermint/tendermint/crypto/merkle"

	"polysim/chain"
	"polysim/engines/e1"
	"polysim/kernel"
)

var debug = os.Getenv("LCTM_DEBUG") != ""

// tracked is the light client's epoch-switch record as read through a state view.
type tracked struct {
	ok        bool
	height    int64
	blockHash []byte
	nextHash  []byte
	chainID   string
}

func (t tracked) equal(o tracked) bool {
	return t.ok == o.ok && t.height == o.height && bytes.Equal(t.blockHash, o.blockHash) && bytes.Equal(t.nextHash, o.nextHash) && t.chainID == o.chainID
}

func (t tracked) String() string {
	if !t.ok {
		return "none"
	}
	return fmt.Sprintf("h=%d blk=%x next=%x chain=%s", t.height, head4(t.blockHash), head4(t.nextHash), t.chainID)
}

func head4(b []byte) []byte {
	if len(b) > 4 {
		return b[:4]
	}
	return b
}

// readTracked decodes the record at headerSync || "epochSwitch" || chainID(8 bytes LE):
// int64 height, var-bytes block hash, var-bytes next-validators hash, string chain id.
func readTracked(v e1.View, polyID uint64) tracked {
	raw := v.Get(chain.HeaderSync, []byte(hscom.EPOCH_SWITCH), utils.GetUint64Bytes(polyID))
	if raw == nil {
		return tracked{}
	}
	src := common.NewZeroCopySource(raw)
	var t tracked
	var eof bool
	if t.height, eof = src.NextInt64(); eof {
		return tracked{}
	}
	if t.blockHash, eof = src.NextVarBytes(); eof {
		return tracked{}
	}
	if t.nextHash, eof = src.NextVarBytes(); eof {
		return tracked{}
	}
	if t.chainID, eof = src.NextString(); eof {
		return tracked{}
	}
	t.ok = true
	return t
}

// ---------------------------------------------------------------------------------------
// reference rule (written from the property text)

// verdict of the reference for "may the light client rely on artefact a, given what it tracks?"
//   - the height must be higher than the tracked one (for a deposit header: not lower),
//   - the submitted validator set must be the set named by the trusted next-validators hash,
//   - distinct validators of that set holding MORE than 2/3 of its power validly signed a.
func (c *simChain) verdict(pre tracked, a *artefact, strict bool) (bool, string) {
	if !pre.ok {
		return false, "no-trust-root"
	}
	if strict && a.f.height <= pre.height {
		return false, "height-not-higher"
	}
	if !strict && a.f.height < pre.height {
		return false, "height-lower"
	}
	trusted, ok := c.setsByHash[hex.EncodeToString(pre.nextHash)]
	if !ok || !sameSet(trusted, a.vals) {
		return false, "valset-not-trusted"
	}
	signed, total := a.tally()
	if !(signed*3 > total*2) {
		return false, "power-not-above-two-thirds"
	}
	return true, ""
}

func (a *artefact) asTracked(chainID string) tracked {
	return tracked{ok: true, height: a.f.height, blockHash: a.hash, nextHash: a.f.nextHash, chainID: chainID}
}

// explain names the root cause of a forbidden move to post: the first link, walking back from
// the header now tracked through the headers of the same transaction, that the reference
// rule does not allow from the pre-state.
func (c *simChain) explain(pre tracked, arts []*artefact, post tracked) (cause, detail string) {
	idx := -1
	for i, a := range arts {
		if bytes.Equal(a.hash, post.blockHash) {
			idx = i
		}
	}
	if idx < 0 {
		return "unknown-header", ""
	}
	for {
		a := arts[idx]
		ok, why := c.verdict(pre, a, true)
		s, tot := a.tally()
		detail = fmt.Sprintf("artefact %q: height %d (tracked %d), validators with a valid signature hold %d of %d", a.desc, a.f.height, pre.height, s, tot)
		if ok {
			return "record-fields-differ", detail
		}
		prev := -1
		for j := idx - 1; j >= 0 && prev < 0; j-- {
			if ok2, _ := c.verdict(arts[j].asTracked(pre.chainID), a, true); ok2 {
				prev = j
			}
		}
		if prev < 0 {
			return why, detail
		}
		idx = prev
	}
}

// reachable computes every record the light client may hold after processing the artefacts
// of one transaction in order, accepting any sub-sequence the reference rule allows.
func (c *simChain) reachable(pre tracked, arts []*artefact, strict bool) []tracked {
	states := []tracked{pre}
	for _, a := range arts {
		for _, s := range states {
			if ok, _ := c.verdict(s, a, strict); ok {
				states = append(states, a.asTracked(s.chainID))
				break
			}
		}
	}
	return states
}

func sameRecord(a, b tracked) bool {
	return a.ok == b.ok && a.height == b.height && bytes.Equal(a.blockHash, b.blockHash) && bytes.Equal(a.nextHash, b.nextHash)
}

// ---------------------------------------------------------------------------------------
// execution

type depInfo struct {
	kind       string
	msg        *simMsg
	value      []byte // the submitted message bytes (CosmosProofValue.Value)
	claimStore string
	claimKey   []byte // nil: no key claimed (absence-style submission)
	honest     bool
}

type pendTx struct {
	tx     *types.Transaction
	kind   string // "hdr" | "dep"
	label  string
	arts   []*artefact
	dep    *depInfo
	expect bool // the reference allows (and an honest relayer expects) success
	exact  bool // a commit with exactly two thirds of the power is involved
	honest bool
	// deposit parameters as submitted (for byte-identical replays)
	ops    []merkle.ProofOp
	kp     string
	height int64
}

type exec struct {
	run       *kernel.Run
	h         *e1.Harness
	c         *simChain
	fam       *famSpec
	cur       tracked // what the light client holds (verified after every transaction)
	cursor    tracked // optimistic prediction while building a block
	pending   []*pendTx
	history   []*artefact
	accepted  []*pendTx // accepted deposits (for replays)
	sig       []byte
	forged    appState // attacker's own application state
	forgedMsg *simMsg
	nArts     int
}

func (x *exec) relayer() int { return 1 }

func (x *exec) hdrTx(arts []*artefact) *types.Transaction {
	p := &hscom.SyncBlockHeaderParam{ChainID: x.c.polyID, Address: x.h.User(x.relayer()).Address}
	for _, a := range arts {
		p.Headers = append(p.Headers, a.bytes)
	}
	return x.h.Signed(chain.HeaderSync, hscom.SYNC_BLOCK_HEADER, chain.Args(p), x.h.User(x.relayer()))
}

func (x *exec) depTx(a *artefact, height int64, ops []merkle.ProofOp, kp string, value []byte) *types.Transaction {
	p := &ccom.EntranceParam{SourceChainID: x.c.polyID, Height: uint32(height), Proof: encodeProof(ops), RelayerAddress: x.h.User(x.relayer()).Address[:],
		Extra: encodeProofValue(kp, value), HeaderOrCrossChainMsg: a.bytes}
	return x.h.Signed(chain.CrossChain, ccom.IMPORT_OUTER_TRANSFER_NAME, chain.Args(p), x.h.User(x.relayer()))
}

// advanceCursor predicts what an honest relayer expects from a transaction (prediction only,
// never part of the oracle): headers that do not change the validator set or are not above
// the record are skipped, every other header must be acceptable or the whole call fails.
func (x *exec) advanceCursor(arts []*artefact) {
	s := x.cursor
	for _, a := range arts {
		if bytes.Equal(a.f.valsHash, a.f.nextHash) || a.f.height <= s.height {
			continue
		}
		if ok, _ := x.c.verdict(s, a, true); !ok {
			return
		}
		s = a.asTracked(s.chainID)
	}
	x.cursor = s
}

func (x *exec) findArt(arts []*artefact, t tracked) *artefact {
	for _, a := range arts {
		if bytes.Equal(a.hash, t.blockHash) {
			return a
		}
	}
	return arts[0]
}

// resolveHeight maps a step's target selector to a height, relative to the predicted record.
func (x *exec) resolveHeight(target, sel int64) (int64, string) {
	T := x.cursor.height
	c := x.c
	switch abs64(target) % 5 {
	case 0:
		if n := c.nextSwitchExt(T); n != 0 {
			return n, "next"
		}
		return T + 1, "beyond"
	case 1:
		if n := c.nextSwitchExt(T); n != 0 {
			if n2 := c.nextSwitchExt(n); n2 != 0 {
				return n2, "skip"
			}
			return n, "next"
		}
		return T + 2, "beyond"
	case 2:
		return T, "equal"
	case 3:
		var lower []int64
		for _, s := range c.sw {
			if s < T {
				lower = append(lower, s)
			}
		}
		if len(lower) > 0 && sel%2 == 0 {
			return lower[int(abs64(sel/2)%int64(len(lower)))], "lower"
		}
		h := T - 1 - abs64(sel)%3
		if h < 1 {
			h = 1
		}
		return h, "lower"
	default:
		h := T + 1
		for c.isSwitch(h) {
			h++
		}
		return h, "nonswitch"
	}
}

const nHdrFaults = 24

var hdrFaultNames = [nHdrFaults]string{"full", "min_above", "exact", "below", "nil_votes", "outsider_sig", "other_block", "other_height", "other_chain",
	"other_round", "bad_time", "bitflip", "dup_vote", "attacker_set", "attacker_set_trusted_hash", "inflated_power", "subset_valset", "superset_valset",
	"commit_of_sibling", "tamper_apphash", "tamper_nexthash", "commit_height", "all_absent", "foreign_chain"}

// attackerSet is a validator set made of keys outside every honest set.
func (x *exec) attackerSet(n int) []valDef {
	var set []valDef
	for i := 0; i < n; i++ {
		set = append(set, valDef{x.c.outsiders[i%len(x.c.outsiders)], int64(10 + i)})
	}
	return set
}

func positions(mask uint, n int) []int {
	var ps []int
	for i := 0; i < n; i++ {
		if mask>>uint(i)&1 == 1 {
			ps = append(ps, i)
		}
	}
	return ps
}

// mkFaulty builds the header at height h (canonical fields unless the fault changes them)
// with the given fault. It returns the artefact and the name of the fault that was really
// produced (a fault that does not apply to this validator set degrades to a neighbouring one).
func (x *exec) mkFaulty(f *hdrFields, trueSet []valDef, canonical bool, fault, sel int64, appVer int) (*artefact, string) {
	c := x.c
	k := int(abs64(fault) % nHdrFaults)
	name := hdrFaultNames[k]
	order := c.b.canonOrder(trueSet, f.version)
	n := len(order)
	sp := &artefactSpec{f: f, order: order, canonical: canonical, appVer: appVer}
	above, _ := pickSubset(order, 0, sel)
	below, okBelow := pickSubset(order, 2, sel)
	one := func(mode voteMode) { // one member of a minimal winning subset misbehaves
		sp.votes = votesFromMask(n, above)
		ps := positions(above, n)
		sp.votes[ps[int(abs64(sel)%int64(len(ps)))]].mode = mode
	}
	switch name {
	case "full":
		sp.votes = votesFromMask(n, 1<<uint(n)-1)
	case "min_above":
		sp.votes = votesFromMask(n, above)
	case "exact":
		if m, ok := pickSubset(order, 1, sel); ok {
			sp.votes = votesFromMask(n, m)
		} else if okBelow {
			name = "below"
			sp.votes = votesFromMask(n, below)
		} else {
			name = "all_absent"
			sp.votes = votesFromMask(n, 0)
		}
	case "below":
		if okBelow {
			sp.votes = votesFromMask(n, below)
		} else {
			name = "all_absent"
			sp.votes = votesFromMask(n, 0)
		}
	case "nil_votes":
		one(vNil)
	case "outsider_sig":
		one(vOutsider)
	case "other_block":
		one(vOtherBlock)
	case "other_height":
		one(vOtherHeight)
	case "other_chain":
		one(vOtherChain)
	case "other_round":
		one(vOtherRound)
	case "bad_time":
		one(vBadTime)
	case "bitflip":
		one(vBitflip)
	case "dup_vote":
		// a losing subset signs; every other slot repeats one signer's vote
		m := below
		if !okBelow {
			m = 0
		}
		sp.votes = votesFromMask(n, m)
		ps := positions(m, n)
		if len(ps) == 0 {
			if n < 2 {
				name = "all_absent"
				break
			}
			// no losing subset: let the lightest validator sign alone ... unless it wins alone
			sp.votes[0].mode = vHonest
			ps = []int{0}
		}
		src := ps[int(abs64(sel)%int64(len(ps)))]
		if sel%2 == 0 { // the heaviest signer is the one repeated
			for _, p := range ps {
				if order[p].power > order[src].power {
					src = p
				}
			}
		}
		for p := range sp.votes {
			if sp.votes[p].mode == vAbsent {
				sp.votes[p] = voteSpec{mode: vCopy, copyOf: src}
			}
		}
		sp.heimdallDup = c.fam.name == "heimdall"
	case "attacker_set", "attacker_set_trusted_hash":
		as := x.attackerSet(1 + int(abs64(sel)%4))
		sp.order = c.b.canonOrder(as, f.version)
		sp.votes = votesFromMask(len(sp.order), 1<<uint(len(sp.order))-1)
		sp.canonical = false
		if name == "attacker_set" {
			g := *f
			g.valsHash = c.b.setHash(as, f.version)
			sp.f = &g
		}
	case "inflated_power":
		if !okBelow {
			name = "all_absent"
			sp.votes = votesFromMask(n, 0)
			break
		}
		sp.votes = votesFromMask(n, below)
		inf := append([]valDef{}, order...)
		for _, p := range positions(below, n) {
			inf[p].power *= 1000
		}
		sp.order = c.b.canonOrder(inf, f.version)
		// keep each validator's vote with the validator
		byID := map[string]voteSpec{}
		for p, v := range order {
			byID[v.key.id] = sp.votes[p]
		}
		sp.votes = make([]voteSpec, n)
		for p, v := range sp.order {
			sp.votes[p] = byID[v.key.id]
		}
		g := *f
		g.valsHash = c.b.setHash(inf, f.version)
		sp.f, sp.canonical = &g, false
	case "subset_valset":
		if !okBelow {
			name = "all_absent"
			sp.votes = votesFromMask(n, 0)
			break
		}
		var sub []valDef
		for _, p := range positions(below, n) {
			sub = append(sub, order[p])
		}
		sp.order = c.b.canonOrder(sub, f.version)
		sp.votes = votesFromMask(len(sub), 1<<uint(len(sub))-1)
		g := *f
		g.valsHash = c.b.setHash(sub, f.version)
		sp.f, sp.canonical = &g, false
	case "superset_valset":
		var total int64
		for _, v := range order {
			total += v.power
		}
		sup := append(append([]valDef{}, order...), valDef{c.outsiders[int(abs64(sel)%int64(len(c.outsiders)))], total * 3})
		sp.order = c.b.canonOrder(sup, f.version)
		sp.votes = make([]voteSpec, len(sp.order))
		for p, v := range sp.order {
			if v.key == sup[len(sup)-1].key {
				sp.votes[p].mode = vHonest
			}
		}
		g := *f
		g.valsHash = c.b.setHash(sup, f.version)
		sp.f, sp.canonical = &g, false
	case "commit_of_sibling":
		sib := *f
		sib.appHash = c.pseudoHash("sibling-app", f.height)
		sp.commitTo = c.b.headerHash(&sib)
		sp.votes = votesFromMask(n, 1<<uint(n)-1)
	case "tamper_apphash", "tamper_nexthash":
		orig := c.b.headerHash(f)
		g := *f
		if name == "tamper_apphash" {
			g.appHash = x.forgedRoot()
			sp.appVer = -1
		} else {
			g.nextHash = c.b.setHash(x.attackerSet(2), f.version)
		}
		sp.f, sp.canonical = &g, false
		sp.votes = votesFromMask(n, 1<<uint(n)-1)
		sp.signTo = orig // what the validators really signed
		if sel%2 == 1 {
			sp.commitTo = orig // the commit still names the original block
			sp.signTo = nil
		}
	case "commit_height":
		sp.commitH = f.height + 1
		sp.votes = votesFromMask(n, 1<<uint(n)-1)
	case "all_absent":
		sp.votes = votesFromMask(n, 0)
	case "foreign_chain":
		g := *f
		g.chainID = f.chainID + "-fork"
		sp.f, sp.canonical = &g, false
		sp.votes = votesFromMask(n, 1<<uint(n)-1)
	}
	sp.desc = fmt.Sprintf("%s h=%d", name, sp.f.height)
	return c.build(sp), name
}

func (x *exec) forgedRoot() []byte {
	x.ensureForged()
	return x.forged.appHash(x.forged.versions() - 1)
}

// ensureForged builds the attacker's own application state: same stores, plus a message
// that was never committed on the real chain.
func (x *exec) ensureForged() {
	if x.forged != nil {
		return
	}
	c := x.c
	rng := kernel.NewRNG(kernel.Derive(c.seed, "forged", c.polyID))
	stores := []string{c.fam.store, "acc", "bank"}
	if c.fam.ics23 {
		x.forged = newICS23State(stores)
	} else {
		x.forged = newLegacyState(stores)
	}
	ccid := rng.Bytes(32)
	m := &simMsg{idx: -1}
	m.param = &ccom.MakeTxParam{TxHash: rng.Bytes(32), CrossChainID: ccid, FromContractAddress: c.ccmc, ToChainID: c.dstID, ToContractAddress: rng.Bytes(20), Method: "unlock", Args: rng.Bytes(33)}
	m.raw = serParam(m.param)
	m.key = c.msgKey(ccid)
	m.stored = c.storedValue(m.raw)
	x.forgedMsg = m
	x.forged.commit([]kvWrite{{"acc", []byte("acct-1"), rng.Bytes(12)}, {c.fam.store, m.key, m.stored}, {"bank", []byte("supply"), rng.Bytes(8)}})
}

// fieldsAt returns header fields for height h: the canonical ones inside the simulated
// chain's range, extrapolated ones (current set, no further switches) outside.
func (x *exec) fieldsAt(h int64) (*hdrFields, []valDef, bool) {
	c := x.c
	if h < 1 {
		h = 1
	}
	if h > c.maxH+50 {
		h = c.maxH + 50
	}
	return c.honestFields(h), c.setAt(h), true
}

func (x *exec) stepHdr(st kernel.Step) {
	c := x.c
	target, fault, sel := st.Arg(0), st.Arg(1), st.Arg(2)
	var a *artefact
	var label string
	switch abs64(target) % 7 {
	case 5: // fabricated switch header at or below the tracked height, carrying the trusted set
		trusted, ok := c.setsByHash[hex.EncodeToString(x.cursor.nextHash)]
		if !ok || !x.cursor.ok {
			x.run.Logf("hdr lowfab: no trusted set, skipped")
			return
		}
		h := x.cursor.height - abs64(sel)%3
		if h < 1 {
			h = 1
		}
		f, _, _ := x.fieldsAt(h)
		g := *f
		g.valsHash = c.b.setHash(trusted, g.version)
		g.nextHash = c.b.setHash(x.attackerSet(2), g.version)
		var name string
		a, name = x.mkFaulty(&g, trusted, false, 0, sel, c.stateVer(h))
		label = "low_height_trusted_set"
		if h == x.cursor.height {
			label = "equal_height_trusted_set"
		}
		_ = name
	case 6: // replay of an earlier submission, byte for byte
		if len(x.history) == 0 {
			x.run.Logf("hdr replay: nothing to replay")
			return
		}
		a = x.history[int(abs64(sel)%int64(len(x.history)))]
		label = "replay"
	default:
		h, where := x.resolveHeight(target, sel)
		f, set, _ := x.fieldsAt(h)
		var name string
		a, name = x.mkFaulty(f, set, true, fault, sel, c.stateVer(h))
		label = where + "/" + name
	}
	x.submitHdr([]*artefact{a}, label, true)
}

func (x *exec) submitHdr(arts []*artefact, label string, inOrder bool) {
	pre := x.cursor
	p := &pendTx{tx: x.hdrTx(arts), kind: "hdr", label: label, arts: arts}
	x.advanceCursor(arts)
	p.expect = !sameRecord(x.cursor, pre)
	p.honest = inOrder
	for _, a := range arts {
		if !a.honest {
			p.honest = false
		}
		s, t := a.tally()
		if s*3 == t*2 && s > 0 {
			p.exact = true
		}
	}
	x.history = append(x.history, arts...)
	x.nArts += len(arts)
	x.pending = append(x.pending, p)
	if p.honest && p.expect {
		x.run.Probe("honest_switch_submitted")
	} else {
		x.run.Fault("hdr:" + label)
	}
	x.run.Logf("submit hdr [%s] n=%d hash=%x expect=%v", label, len(arts), head4(arts[0].hash), p.expect)
}

func (x *exec) stepMulti(st kernel.Step) {
	c := x.c
	k := 2 + int(abs64(st.Arg(0))%2)
	mode := abs64(st.Arg(1)) % 4
	var arts []*artefact
	T := x.cursor.height
	for i := 0; i < k; i++ {
		n := c.nextSwitchExt(T)
		if n == 0 {
			break
		}
		arts = append(arts, c.honest(n))
		T = n
	}
	if len(arts) == 0 {
		x.run.Logf("multi: no switch header left")
		return
	}
	label := "multi/in_order"
	switch mode {
	case 1:
		for i, j := 0, len(arts)-1; i < j; i, j = i+1, j-1 {
			arts[i], arts[j] = arts[j], arts[i]
		}
		label = "multi/reversed"
	case 2: // one faulty header inside the batch
		i := int(abs64(st.Arg(2)) % int64(len(arts)))
		h := arts[i].f.height
		f, set, _ := x.fieldsAt(h)
		fa, name := x.mkFaulty(f, set, true, 2+abs64(st.Arg(3))%(nHdrFaults-3), st.Arg(2), c.stateVer(h))
		arts[i] = fa
		label = "multi/faulty_" + name
	case 3:
		arts = append(arts, arts[0])
		label = "multi/duplicate"
	}
	x.submitHdr(arts, label, mode == 0)
}

// sanitize makes b free of the two bytes a URL-encoded key-path element cannot carry.
func sanitize(b []byte) []byte {
	out := append([]byte{}, b...)
	for i, v := range out {
		if v == '/' || v == '%' {
			out[i] = 0x11
		}
	}
	return out
}

const nDepKinds = 13

var depKindNames = [nDepKinds]string{"existence", "absence_as_message", "absence_ops_for_value", "later_state", "other_value", "other_key", "no_multistore_op",
	"forged_state_honest_header", "forged_state_weak_header", "replay", "existence_on_switch_header", "low_height_header", "equal_height_switch_header"}

func (x *exec) stepDep(st kernel.Step) {
	c := x.c
	if !c.fam.hasDeposit {
		x.run.Logf("dep: router has no deposit path")
		return
	}
	kind := depKindNames[int(abs64(st.Arg(1))%nDepKinds)]
	sel := st.Arg(2)
	T := x.cursor.height
	if !x.cursor.ok {
		return
	}
	// heights whose header carries the currently trusted set: (T, next switch]
	hi := c.nextSwitchAfter(T)
	if hi == 0 {
		hi = c.maxH
	}
	if kind == "replay" {
		if len(x.accepted) == 0 {
			kind = "existence"
		} else {
			o := x.accepted[int(abs64(sel)%int64(len(x.accepted)))]
			d := *o.dep
			d.kind, d.honest = "replay", false
			p := &pendTx{kind: "dep", label: "replay", arts: o.arts, dep: &d, ops: o.ops, kp: o.kp, height: o.height}
			p.tx = x.depTx(o.arts[0], o.height, o.ops, o.kp, d.value) // same parameters in a fresh transaction
			x.queueDep(p)
			return
		}
	}
	// choose the message: one that is committed within reach and not yet accepted, if any
	var avail []*simMsg
	for _, m := range c.msgs {
		if m.commitH <= hi && !m.accepted {
			avail = append(avail, m)
		}
	}
	var m *simMsg
	if len(avail) > 0 {
		m = avail[int(abs64(st.Arg(0))%int64(len(avail)))]
	} else if len(c.msgs) > 0 {
		m = c.msgs[int(abs64(st.Arg(0))%int64(len(c.msgs)))]
	} else {
		x.run.Logf("dep: chain has no messages")
		return
	}
	h := m.commitH
	if h <= T {
		h = T + 1
	}
	if h > hi {
		h = hi
	}
	if kind == "existence_on_switch_header" {
		h = hi
	}
	f, set, _ := x.fieldsAt(h)
	ver := c.stateVer(h)
	store := c.fam.store
	d := &depInfo{kind: kind, msg: m, value: m.raw, claimStore: store, claimKey: m.key}
	var a *artefact
	var ops []merkle.ProofOp
	kp := keyPath(store, m.key)
	hdrFault := int64(0)
	if abs64(st.Arg(3))%4 == 1 {
		hdrFault = 1 // minimal winning commit instead of a full one
	}
	switch kind {
	case "existence", "existence_on_switch_header":
		var ex, ok bool
		ops, ex, ok = c.app.prove(ver, store, m.key)
		if !ok || !ex {
			x.run.Logf("dep %s: message %d not committed at h=%d, skipped", kind, m.idx, h)
			return
		}
		a, _ = x.mkFaulty(f, set, true, hdrFault, sel, ver)
		d.honest = true
	case "low_height_header":
		// a header BELOW the tracked height that carries the trusted set, fully signed, committing
		// a state that really contains the message (old validators / long-range style)
		trusted, okT := c.setsByHash[hex.EncodeToString(x.cursor.nextHash)]
		var ex, ok bool
		ops, ex, ok = c.app.prove(m.idx+1, store, m.key)
		lh := T - 1 - abs64(sel)%3
		if !okT || !ok || !ex || lh < 1 {
			x.run.Logf("dep low_height_header: not applicable, skipped")
			return
		}
		lf, _, _ := x.fieldsAt(lh)
		g := *lf
		g.valsHash = c.b.setHash(trusted, g.version)
		g.nextHash = g.valsHash
		g.appHash = c.app.appHash(m.idx + 1)
		a, _ = x.mkFaulty(&g, trusted, false, 0, sel, m.idx+1)
	case "equal_height_switch_header":
		// a header exactly AT the tracked height (sel odd: one below) whose validator set is the
		// trusted next set B, validly signed by B, announcing ANOTHER next set C, committing a
		// state that really contains the message: the deposit may pass, the record must not move
		if len(x.pending) > 0 && !x.flush() { // the attack needs the real tracked height
			return
		}
		T = x.cursor.height
		trusted, okT := c.setsByHash[hex.EncodeToString(x.cursor.nextHash)]
		var ex, ok bool
		ops, ex, ok = c.app.prove(m.idx+1, store, m.key)
		lh := T - abs64(sel)%2
		if !okT || !ok || !ex || lh < 1 {
			x.run.Logf("dep equal_height_switch_header: not applicable, skipped")
			return
		}
		lf, _, _ := x.fieldsAt(lh)
		g := *lf
		g.valsHash = c.b.setHash(trusted, g.version)
		g.nextHash = c.b.setHash(x.attackerSet(2), g.version)
		g.appHash = c.app.appHash(m.idx + 1)
		a, _ = x.mkFaulty(&g, trusted, false, abs64(st.Arg(3))%2, sel, m.idx+1)
		if lh == T {
			x.run.Probe("equal_height_header_with_other_next_set_submitted")
			x.run.Probe("equal_height_header_with_other_next_set_submitted:" + c.fam.name)
		}
	case "absence_as_message":
		// no key path; the "message" is a byte string that is at the same time a key path
		// "/store/key" of an ABSENT key and a well-formed MakeTxParam serialization
		rng := kernel.NewRNG(kernel.Derive(c.seed, "absence", uint64(x.run.StepNo)))
		txh := append([]byte(store+"/"), sanitize(rng.Bytes(47-len(store)-1))...)
		p := &ccom.MakeTxParam{TxHash: txh, CrossChainID: sanitize(rng.Bytes(32)), FromContractAddress: sanitize(c.ccmc), ToChainID: c.dstID,
			ToContractAddress: sanitize(rng.Bytes(20)), Method: "unlock", Args: sanitize(rng.Bytes(40))}
		val := serParam(p)
		if val[0] != '/' {
			panic("lctm: crafted value does not start a key path")
		}
		key := val[2+len(store):]
		var ex, ok bool
		ops, ex, ok = c.app.prove(ver, store, key)
		if !ok || ex {
			x.run.Logf("dep absence: cannot build absence proof, skipped")
			return
		}
		a, _ = x.mkFaulty(f, set, true, hdrFault, sel, ver)
		kp = ""
		d.value, d.claimKey = val, nil
	case "absence_ops_for_value":
		x.ensureForged()
		fm := x.forgedMsg
		var ex, ok bool
		ops, ex, ok = c.app.prove(ver, store, fm.key)
		if !ok || ex {
			return
		}
		a, _ = x.mkFaulty(f, set, true, hdrFault, sel, ver)
		kp = keyPath(store, fm.key)
		d.value, d.claimKey, d.msg = fm.raw, fm.key, fm
	case "later_state":
		// a message committed only after the header's height, proven against the later state
		var later *simMsg
		for _, q := range c.msgs {
			if q.commitH > h {
				later = q
				break
			}
		}
		if later == nil {
			x.run.Logf("dep later_state: no later message, skipped")
			return
		}
		ops, _, _ = c.app.prove(later.idx+1, store, later.key)
		a, _ = x.mkFaulty(f, set, true, hdrFault, sel, ver)
		kp = keyPath(store, later.key)
		d.value, d.claimKey, d.msg = later.raw, later.key, later
	case "other_value":
		var ex, ok bool
		ops, ex, ok = c.app.prove(ver, store, m.key)
		if !ok || !ex {
			return
		}
		p := *m.param
		p.Args = append([]byte{0xee}, m.param.Args...)
		p.ToContractAddress = sanitize(c.ccmc)
		a, _ = x.mkFaulty(f, set, true, hdrFault, sel, ver)
		d.value = serParam(&p)
	case "other_key":
		var ex, ok bool
		ops, ex, ok = c.app.prove(ver, store, m.key)
		if !ok || !ex {
			return
		}
		x.ensureForged()
		a, _ = x.mkFaulty(f, set, true, hdrFault, sel, ver)
		kp = keyPath(store, x.forgedMsg.key)
		d.value, d.claimKey = m.raw, x.forgedMsg.key
	case "no_multistore_op":
		var ex, ok bool
		ops, ex, ok = c.app.prove(ver, store, m.key)
		if !ok || !ex {
			return
		}
		ops = ops[:1]
		a, _ = x.mkFaulty(f, set, true, hdrFault, sel, ver)
	case "forged_state_honest_header", "forged_state_weak_header":
		x.ensureForged()
		fm := x.forgedMsg
		ops, _, _ = x.forged.prove(x.forged.versions()-1, store, fm.key)
		kp = keyPath(store, fm.key)
		d.value, d.claimKey, d.msg = fm.raw, fm.key, fm
		if kind == "forged_state_honest_header" {
			a, _ = x.mkFaulty(f, set, true, hdrFault, sel, ver)
		} else {
			g := *f
			g.appHash = x.forgedRoot()
			weak := []int64{2, 3, 4, 5, 12, 13, 14, 15, 16, 17}
			a, _ = x.mkFaulty(&g, set, false, weak[int(abs64(st.Arg(3))%int64(len(weak)))], sel, -1)
		}
	}
	height := a.f.height
	if !d.honest && abs64(st.Arg(3))%7 == 6 {
		height++ // parameter height disagrees with the header
	}
	p := &pendTx{kind: "dep", label: kind, arts: []*artefact{a}, dep: d, ops: ops, kp: kp, height: height}
	p.tx = x.depTx(a, height, ops, kp, d.value)
	x.queueDep(p)
	if kind == "equal_height_switch_header" {
		// follow-up: one height further, a header signed ONLY by the set announced there
		var m2 *simMsg
		for _, q := range c.msgs {
			if q != m && !q.accepted {
				m2 = q
			}
		}
		if m2 == nil {
			m2 = m
		}
		ops2, ex2, ok2 := c.app.prove(m2.idx+1, store, m2.key)
		if !ok2 || !ex2 {
			return
		}
		cset := x.attackerSet(2)
		f2, _, _ := x.fieldsAt(a.f.height + 1)
		g2 := *f2
		g2.valsHash = c.b.setHash(cset, g2.version)
		g2.nextHash = c.b.setHash(x.attackerSet(3), g2.version)
		g2.appHash = c.app.appHash(m2.idx + 1)
		a2, _ := x.mkFaulty(&g2, cset, false, 0, sel, m2.idx+1)
		d2 := &depInfo{kind: "announced_set_after_equal_height", msg: m2, value: m2.raw, claimStore: store, claimKey: m2.key}
		p2 := &pendTx{kind: "dep", label: d2.kind, arts: []*artefact{a2}, dep: d2, ops: ops2, kp: keyPath(store, m2.key), height: a2.f.height}
		p2.tx = x.depTx(a2, p2.height, ops2, p2.kp, d2.value)
		x.queueDep(p2)
	}
}

func (x *exec) queueDep(p *pendTx) {
	pre := x.cursor
	if p.dep.honest {
		again := p.dep.msg.accepted
		for _, q := range x.pending {
			if q.dep != nil && q.dep.honest && q.dep.msg == p.dep.msg {
				again = true
			}
		}
		if again { // a second honest submission of a message: only one of them may succeed
			p.dep.honest = false
			p.label += "_again"
		}
	}
	ok, _ := x.c.verdict(pre, p.arts[0], false)
	p.expect = ok && p.dep.honest
	p.honest = p.dep.honest && p.arts[0].honest
	s, t := p.arts[0].tally()
	p.exact = s*3 == t*2 && s > 0
	if ok {
		x.advanceCursor(p.arts)
	}
	x.nArts++
	x.pending = append(x.pending, p)
	if p.expect {
		x.run.Probe("honest_deposit_submitted")
	} else {
		x.run.Fault("dep:" + p.label)
	}
	x.run.Logf("submit dep [%s] msg=%d hdr h=%d hash=%x expect=%v", p.label, p.dep.msg.idx, p.arts[0].f.height, head4(p.arts[0].hash), p.expect)
}

// flush commits the pending transactions in one block and judges every transition.
func (x *exec) flush() bool {
	if len(x.pending) == 0 {
		return true
	}
	run := x.run
	var txs []*types.Transaction
	for _, p := range x.pending {
		txs = append(txs, p.tx)
	}
	pend := x.pending
	x.pending = nil
	// the per-transaction records are read BEFORE the block is committed (the views layer the
	// block's write set over the committed ledger)
	type snap struct{ pre, post tracked }
	var snaps []snap
	traces, ok := x.h.ExecInspect(func(tr []*e1.TxTrace) {
		for _, t := range tr {
			snaps = append(snaps, snap{readTracked(t.Pre, x.c.polyID), readTracked(t.Post, x.c.polyID)})
		}
	}, txs...)
	if !ok {
		return false
	}
	if len(traces) != len(pend) || len(snaps) != len(pend) {
		panic(fmt.Sprintf("lctm: %d traces / %d snapshots for %d transactions", len(traces), len(snaps), len(pend)))
	}
	for i, t := range traces {
		p := pend[i]
		pre, post := snaps[i].pre, snaps[i].post
		if !pre.equal(x.cur) {
			run.Fail("C30", "record-changed-between-transactions", "tracked record before tx %d (%s) is %v, after the previous transaction it was %v", i, p.label, pre, x.cur)
			return false
		}
		run.Logf("tx %d %s [%s] ok=%v record %v -> %v", i, p.kind, p.label, t.OK, pre, post)
		run.State([]byte(fmt.Sprintf("%s|%v|%d|%x", p.label, t.OK, post.height-pre.height, len(t.Writes))))
		x.sig = append(x.sig, []byte(fmt.Sprintf("%s:%v;", p.label, t.OK))...)
		if !x.judge(p, t, pre, post) {
			return false
		}
		x.cur = post
	}
	if committed := readTracked(x.h.View(), x.c.polyID); !committed.equal(x.cur) {
		run.Fail("C30", "committed-record-differs", "tracked record after the block's last transaction is %v but the committed state holds %v", x.cur, committed)
		return false
	}
	x.cursor = x.cur
	return true
}

func (x *exec) judge(p *pendTx, t *e1.TxTrace, pre, post tracked) bool {
	run, c := x.run, x.c
	fam := c.fam.name
	// --- the tracked height never decreases; a failed transaction changes nothing
	if pre.ok && (!post.ok || post.height < pre.height) {
		run.Fail("C30", "tracked-height-decreased", "%s: tx [%s] moved the tracked height from %d to %v", fam, p.label, pre.height, post)
		return false
	}
	if !t.OK && !post.equal(pre) {
		run.Fail("C30", "failed-tx-changed-record", "%s: failed tx [%s] changed the tracked record %v -> %v", fam, p.label, pre, post)
		return false
	}
	// --- the record advances only as the reference rule allows
	if !sameRecord(pre, post) {
		allowed := false
		for _, r := range c.reachable(pre, p.arts, true)[1:] {
			if sameRecord(r, post) {
				allowed = true
			}
		}
		if !allowed {
			cause, detail := c.explain(pre, p.arts, post)
			run.Fail("C30", "epoch-advanced:"+cause+":"+c.fam.driver, "%s: tx [%s] advanced the tracked record %v -> %v although the reference rule forbids it (%s) %s", fam, p.label, pre, post, cause, detail)
			return false
		}
		if post.chainID != pre.chainID {
			run.Probe("obs_tracked_chain_id_changed")
		}
		if a := x.findArt(p.arts, post); a.f.chainID != pre.chainID {
			run.Probe("obs_foreign_chain_id_header_tracked")
		}
		run.Probe("epoch_advanced")
		if a := x.findArt(p.arts, post); c.version(pre.height) < 11 && a.f.version >= 11 {
			run.Probe("block_version_10_to_11_boundary_crossed")
		}
		run.Probe("epoch_advanced:" + fam)
		if p.honest {
			run.Probe("honest_switch_accepted")
			run.Probe("honest_switch_accepted:" + fam)
		}
		if p.kind == "dep" {
			run.Probe("epoch_advanced_by_deposit")
		}
	}
	if p.kind == "hdr" {
		save := x.cursor
		x.cursor = pre
		x.advanceCursor(p.arts)
		p.expect = !sameRecord(x.cursor, pre)
		x.cursor = save
		if p.exact {
			run.Probe("exact_two_thirds_submitted")
			if !t.OK {
				run.Probe("exact_two_thirds_rejected")
				run.Probe("exact_two_thirds_rejected:" + fam)
			}
		}
		if p.expect && p.honest && !t.OK {
			run.Probe("honest_header_rejected")
			run.Logf("note: honest header batch [%s] was rejected", p.label)
			if debug {
				fmt.Fprintf(os.Stderr, "LCTM_DEBUG honest header rejected: fam=%s label=%s pre=%v arts=%d\n", fam, p.label, pre, len(p.arts))
			}
		}
		if !p.expect && !t.OK {
			run.Probe("faulty_header_rejected")
		}
		if debug && !t.OK {
			for _, a := range p.arts {
				sg, tot := a.tally()
				fmt.Fprintf(os.Stderr, "LCTM_DEBUG %s [%s] %q rejected: %v (ref: %d/%d of %s)\n", fam, p.label, a.desc, debugVerify(c.fam, a.bytes, pre), sg, tot, powersOf(a))
			}
		}
		return true
	}
	// --- deposits
	d := p.dep
	if ok, _ := c.verdict(pre, p.arts[0], false); !ok {
		p.expect = false
	}
	if !t.OK {
		if debug {
			fmt.Fprintf(os.Stderr, "LCTM_DEBUG %s dep [%s] rejected; header %q: %v (ref: %s) proof: %v msg %d accepted=%v\n", fam, p.label, p.arts[0].desc, debugVerify(c.fam, p.arts[0].bytes, pre), powersOf(p.arts[0]), debugProof(c.fam, p), d.msg.idx, d.msg.accepted)
		}
		if p.expect {
			run.Probe("honest_deposit_rejected")
			run.Logf("note: honest deposit of message %d was rejected", d.msg.idx)
			if debug {
				fmt.Fprintf(os.Stderr, "LCTM_DEBUG honest deposit rejected: fam=%s msg=%d hdr=%d pre=%v\n", fam, d.msg.idx, p.arts[0].f.height, pre)
			}
		} else {
			run.Probe("faulty_deposit_rejected")
			if p.exact {
				run.Probe("exact_two_thirds_deposit_rejected")
			}
		}
		return true
	}
	a := p.arts[0]
	if ok, cause := c.verdict(pre, a, false); !ok {
		s, tot := a.tally()
		run.Fail("C30", "deposit-accepted:header-"+cause+":"+c.fam.driver, "%s: deposit [%s] accepted on a header the reference rule rejects (%s): %q height %d (tracked %d), valid signatures hold %d of %d",
			fam, p.label, cause, a.desc, a.f.height, pre.height, s, tot)
		return false
	}
	got := acceptedMessage(t)
	if got == nil {
		run.Fail("C30", "deposit-accepted:no-request-recorded", "%s: deposit [%s] succeeded but no outbound request was written", fam, p.label)
		return false
	}
	if !bytes.Equal(got, d.value) {
		run.Fail("C30", "deposit-accepted:message-differs", "%s: deposit [%s]: accepted message %x differs from the submitted one %x", fam, p.label, got, d.value)
		return false
	}
	// the message must EXIST in the state committed by the header
	want := c.storedValue(got)
	exists := false
	if a.appVer >= 0 {
		if d.claimKey != nil {
			exists = bytes.Equal(c.app.get(a.appVer, d.claimStore, d.claimKey), want)
		}
	}
	if !exists {
		key := "deposit-accepted:message-not-in-committed-state"
		if d.claimKey == nil {
			key = "deposit-accepted:on-absence-proof"
		}
		run.Fail("C30", key+":"+c.fam.driver, "%s: deposit [%s] accepted, but the message is not in the state committed by header %q (app version %d, claimed key %x); accepted message %x",
			fam, p.label, a.desc, a.appVer, d.claimKey, head4(got))
		return false
	}
	if d.kind == "replay" || d.msg.accepted {
		run.Fail("C20", "message-accepted-twice", "%s: message %d accepted a second time", fam, d.msg.idx)
		return false
	}
	d.msg.accepted = true
	x.accepted = append(x.accepted, p)
	run.Probe("deposit_accepted")
	if p.honest {
		run.Probe("honest_deposit_accepted")
		run.Probe("honest_deposit_accepted:" + fam)
	}
	return true
}

// acceptedMessage extracts the MakeTxParam bytes of the outbound request a successful
// import wrote (cross-chain manager || "request" || toChain || txHash -> ToMerkleValue).
func acceptedMessage(t *e1.TxTrace) []byte {
	keys := make([]string, 0, len(t.Writes))
	for k := range t.Writes {
		keys = append(keys, k)
	}
	sort.Strings(keys)
	pre := append([]byte{}, chain.CrossChain[:]...)
	pre = append(pre, []byte(ccom.REQUEST)...)
	for _, k := range keys {
		if len(k) < 1+len(pre) || !bytes.Equal([]byte(k[1:1+len(pre)]), pre) || len(t.Writes[k]) == 0 {
			continue
		}
		val, err := cstates.GetValueFromRawStorageItem(t.Writes[k])
		if err != nil {
			continue
		}
		mv := new(ccom.ToMerkleValue)
		if mv.Deserialization(common.NewZeroCopySource(val)) != nil || mv.MakeTxParam == nil {
			continue
		}
		return serParam(mv.MakeTxParam)
	}
	return nil
}

// setup creates the world, registers the chains and installs the trust root.
func newExec(run *kernel.Run, h *e1.Harness, fam *famSpec) *exec {
	plan := run.Plan
	const polyID, dstID = 7, 9
	c := newSimChain(fam, plan.Seed, polyID, dstID, int(abs64(plan.C("nsw", 2))%5)+1, int(abs64(plan.C("nmsg", 2))%7), plan.C("recur", 0)%2 == 1)
	x := &exec{run: run, h: h, c: c, fam: fam}
	if err := h.RegisterChain(polyID, fam.router, "sim-"+fam.driver, 1, c.ccmc, nil); err != nil {
		panic(fmt.Sprintf("lctm: register chain: %v", err))
	}
	if err := h.RegisterChain(dstID, utils.ETH_ROUTER, "dst", 1, []byte{0xd5, 0x7c}, nil); err != nil {
		panic(fmt.Sprintf("lctm: register destination chain: %v", err))
	}
	g := c.honest(c.sw[0])
	tx := h.Operator(chain.HeaderSync, hscom.SYNC_GENESIS_HEADER, chain.Args(&hscom.SyncGenesisHeaderParam{ChainID: polyID, GenesisHeader: g.bytes}))
	tr, ok := h.Exec(tx)
	if !ok {
		return nil
	}
	if len(tr) != 1 || !tr[0].OK {
		panic("lctm: trust root installation failed")
	}
	x.cur = readTracked(h.View(), polyID)
	want := g.asTracked(c.chainID)
	if !x.cur.equal(want) {
		panic(fmt.Sprintf("lctm: trust root record %v, expected %v", x.cur, want))
	}
	x.cursor = x.cur
	run.Logf("trust root installed: fam=%s %v sets=%d switches=%v msgs=%d", fam.name, x.cur, len(c.sets), c.sw, len(c.msgs))
	return x
}

func execC30(run *kernel.Run) {
	plan := run.Plan
	fam := families[int(abs64(plan.C("fam", 0))%int64(len(families)))]
	h, err := e1.NewHarness(run, 4, int(abs64(plan.C("followers", 0))%2), uint32(1+abs64(plan.C("net", 0))%2), 100000)
	if err != nil {
		panic(err)
	}
	defer h.Close()
	x := newExec(run, h, fam)
	if x == nil {
		return
	}
	run.Probe("router:" + fam.name)
	maxArts := int(plan.C("maxarts", 12))
	for i, st := range plan.Steps {
		run.StepNo = i
		run.Steps++
		if x.nArts >= maxArts && (st.Op == "hdr" || st.Op == "multi" || st.Op == "dep") {
			continue
		}
		switch st.Op {
		case "hdr":
			x.stepHdr(st)
		case "multi":
			x.stepMulti(st)
		case "dep":
			x.stepDep(st)
		case "blk":
			if !x.flush() {
				return
			}
		case "restart":
			if !x.flush() {
				return
			}
			if err := h.Restart(int(abs64(st.Arg(0)))); err != nil {
				panic(fmt.Sprintf("lctm: restart: %v", err))
			}
			after := readTracked(h.View(), x.c.polyID)
			if !after.equal(x.cur) {
				run.Fail("C30", "record-changed-by-restart", "%s: tracked record %v before a clean restart, %v after", fam.name, x.cur, after)
				return
			}
			run.Logf("restart node %d: record kept", st.Arg(0))
		}
		if run.Failed() {
			return
		}
		if len(x.pending) >= 3 {
			if !x.flush() {
				return
			}
		}
	}
	if !x.flush() {
		return
	}
	// non-trivial: the light client followed at least one validator-set change and at least
	// one faulty submission was judged
	adv := run.Probes["epoch_advanced"] > 0
	rej := run.Probes["faulty_header_rejected"]+run.Probes["faulty_deposit_rejected"] > 0
	if adv && rej {
		run.Nontrivial(append([]byte(fam.name+"|"), x.sig...))
	}
	run.Sample = map[string]interface{}{"router": fam.name, "switch_heights": x.c.sw, "set_sizes": setSizes(x.c), "messages": len(x.c.msgs), "outcomes": string(x.sig), "final": x.cur.String()}
}

func setSizes(c *simChain) []string {
	var out []string
	for _, s := range c.sets {
		var t int64
		for _, v := range s {
			t += v.power
		}
		out = append(out, fmt.Sprintf("%d/%d", len(s), t))
	}
	return out
}

func genC30(rng *kernel.RNG, idx int, tier string) *kernel.Plan {
	p := &kernel.Plan{Cfg: map[string]int64{}, Seed: rng.Uint64() | 1}
	fw := []int{0, 0, 0, 1, 1, 2, 2, 3, 3, 3, 4, 4, 4}
	p.Cfg["fam"] = int64(fw[rng.Intn(len(fw))])
	p.Cfg["nsw"] = int64(1 + rng.Intn(4)) // 2..5 validator-set changes
	p.Cfg["nmsg"] = int64(1 + rng.Intn(4))
	p.Cfg["recur"] = int64(rng.Intn(2))
	p.Cfg["followers"] = int64(rng.Intn(3) / 2)
	p.Cfg["net"] = int64(rng.Intn(2))
	p.Cfg["maxarts"] = 12
	hasDep := p.Cfg["fam"] != 4
	// swarm knobs
	honestBias := []float64{0.35, 0.5, 0.7, 1.0}[rng.Intn(4)]
	if rng.Chance(0.85) && honestBias == 1.0 {
		honestBias = 0.5
	}
	depShare := []float64{0, 0.2, 0.35, 0.5}[rng.Intn(4)]
	if !hasDep {
		depShare = 0
	}
	restarts := rng.Chance(0.6)
	n := 9 + rng.Intn(8)
	arts := 0
	for i := 0; i < n && arts < 12; i++ {
		r := rng.Float()
		switch {
		case r < 0.08 && restarts:
			p.Steps = append(p.Steps, kernel.Step{Op: "restart", A: []int64{int64(rng.Intn(2))}})
		case r < 0.2:
			p.Steps = append(p.Steps, kernel.Step{Op: "blk"})
		case r < 0.2+0.8*depShare:
			kind := int64(0)
			if !rng.Chance(honestBias) {
				kind = int64(1 + rng.Intn(nDepKinds-1))
				if rng.Chance(0.12) {
					kind = 12 // header at the tracked height announcing another next set
				}
			} else if rng.Chance(0.2) {
				kind = 10
			}
			p.Steps = append(p.Steps, kernel.Step{Op: "dep", A: []int64{int64(rng.Intn(8)), kind, int64(rng.Intn(64)), int64(rng.Intn(64))}})
			arts++
		case r < 0.2+0.8*depShare+0.07:
			p.Steps = append(p.Steps, kernel.Step{Op: "multi", A: []int64{int64(rng.Intn(2)), int64(rng.Intn(4)), int64(rng.Intn(8)), int64(rng.Intn(32))}})
			arts += 3
		default:
			target, fault := int64(0), int64(0)
			if rng.Chance(honestBias) {
				if rng.Chance(0.3) {
					fault = 1
				}
			} else {
				switch q := rng.Float(); {
				case q < 0.55: // faulty commit / validator set on the header the client waits for
					fault = int64(2 + rng.Intn(nHdrFaults-2))
					if rng.Chance(0.3) {
						fault = 2 // exactly two thirds
					}
				case q < 0.85: // honest or faulty header at the wrong place
					target = int64(1 + rng.Intn(6))
					if rng.Chance(0.3) {
						fault = int64(rng.Intn(nHdrFaults))
					}
				default:
					target, fault = int64(rng.Intn(5)), int64(rng.Intn(nHdrFaults))
				}
			}
			p.Steps = append(p.Steps, kernel.Step{Op: "hdr", A: []int64{target, fault, int64(rng.Intn(64))}})
			arts++
		}
	}
	p.Steps = append(p.Steps, kernel.Step{Op: "blk"})
	return p
}

func init() {
	req := []string{"honest_switch_accepted", "honest_deposit_accepted", "exact_two_thirds_rejected", "faulty_header_rejected", "faulty_deposit_rejected", "equal_height_header_with_other_next_set_submitted"}
	for _, f := range families {
		req = append(req, "router:"+f.name, "honest_switch_accepted:"+f.name)
		if f.hasDeposit {
			req = append(req, "honest_deposit_accepted:"+f.name)
		}
	}
	kernel.Register(&kernel.Check{
		ID: "C30", Level: "exploration", Engine: "E1 cluster / lightclient-tendermint (lctm)",
		Rule: "One run = one simulated Tendermint chain (1-5 validator-set changes, sets of 1-7 validators with equal/skewed/large/exactly-divisible powers, ed25519 + secp256k1 + eth-secp256k1 keys derived from the seed, " +
			"real IAVL multi-store or ICS-23 simple-merkle app state) behind one router flavour (cosmos-legacy v10 amino, cosmos-stargate v11 protobuf/ICS-23, cosmos-upgrade v10->v11, okex, heimdall), trust root installed by the consensus operator, " +
			"then <= 12 relayer submissions (syncBlockHeader with 1-4 headers, ImportOuterTransfer deposits) in blocks of <= 3 transactions with clean restarts in between. " +
			"Reference (from the property text, evaluated on by-construction knowledge of who signed what): the tracked record may move only to a submitted header with height > tracked height, whose submitted validator set is the set named by the trusted next-validators hash, " +
			"and for which DISTINCT validators holding > 2/3 of that set's power validly signed exactly that header; height never decreases; failed transactions change nothing; restarts change nothing; an accepted deposit needs such a header (height >= tracked), " +
			"message == submitted message, and the message present under the claimed key in the state committed by that header. Non-trivial = at least one validator-set change followed AND at least one faulty submission judged; distinct = router flavour + sequence of (submission label, outcome).",
		Real: []string{"native/service/header_sync/{cosmos,okex,polygon(heimdall)} SyncGenesisHeader/SyncBlockHeader/VerifyCosmosHeader", "native/service/cross_chain_manager/{cosmos,okex} MakeDepositProposal + entrance ImportExTransfer/MakeTransaction",
			"side_chain_manager registration", "ledger, native runtime, overlay/cache DB (e1.Harness: per-transaction tracing, C15/C16/C17 generic oracles, followers, clean restarts)",
			"tendermint v0.33.7 + switcheo/tendermint v0.34 types, go-amino, cosmos-sdk 0.39.1 rootmulti/iavl stores, confio/ics23, ed25519/secp256k1 signatures (trusted dependencies)"},
		Stub: []string{"the Tendermint side chain itself (simulated generator: headers, commits, validator-set history, app state, proofs)", "relayers (plan-driven)", "VBFT server / p2p (block producer stub of e1)", "Heimdall span proofs and the bor router are not driven"},
		Assumptions: []string{"the consensus operator installs an honest trust root (SyncGenesisHeader is not verified by design)", "headers whose own ChainID differs from the tracked chain id but are consistently signed are recorded as an observation probe, not asserted (the property text does not mention chain ids)",
			"inputs that make the handlers panic (nil commit, duplicate validators, zero voting power, Heimdall vote index pointing at a missing precommit) are not generated: panics are outside C30"},
		QuickRuns: 320, ThoroughRuns: 24000, QuickCap: 55, ThoroughCap: 840,
		RequiredProbes: req,
		Generate:       genC30, Execute: execC30,
	})
}

func powersOf(a *artefact) string {
	out := ""
	for _, v := range a.vals {
		m := ""
		if a.support[v.key.id] {
			m = "*"
		}
		out += fmt.Sprintf("%d%s ", v.power, m)
	}
	return out
}
