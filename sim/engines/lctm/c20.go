package lctm

// C20 depositors (lc.Depositor) for the Tendermint-family routers with a deposit path:
// "cosmos" (legacy v10 chains and v10->v11 upgrade chains, IAVL proofs), "cosmos-stargate"
// (v11, ICS-23 proofs) and "okex". Heimdall has no cross_chain_manager handler.
//
// One replay run: honest header syncs and valid deposits through ImportOuterTransfer, every
// accepted message replayed later in several forms, plus never-valid submissions; the oracle
// follows, per (source chain, cross-chain id), acceptance and the done mark.

import (
	"bytes"
	"encoding/hex"
	"fmt"
	"net/url"
	"sort"

	"github.com/polynetwork/poly/common"
	"github.com/polynetwork/poly/core/types"
	ccom "github.com/polynetwork/poly/native/service/cross_chain_manager/common"
	"github.com/tendermint/tendermint/crypto/merkle"

	"polysim/engines/e1"
	"polysim/engines/lc"
	"polysim/kernel"
)

type tmDepositor struct {
	router string
	fams   []string // flavours drawn per run
}

func (d tmDepositor) Router() string { return d.router }

func init() {
	lc.RegisterDepositor(tmDepositor{"cosmos", []string{"cosmos-legacy", "cosmos-legacy", "cosmos-upgrade"}})
	lc.RegisterDepositor(tmDepositor{"cosmos-stargate", []string{"cosmos-stargate"}})
	lc.RegisterDepositor(tmDepositor{"okex", []string{"okex"}})
}

// replay forms
const (
	rfIdentical   = iota // (a) the identical transaction (same bytes, same hash) in a later block
	rfSameParams         // (a') a fresh relayer transaction with byte-identical parameters
	rfLaterHdr           // (b) the same message proven against a later header / later state version
	rfOtherCommit        // (b') same height, another valid commit (other signer subset, other round)
	rfKeyPath            // (c) the key path re-spelled (hex store name, URL-escaped key)
	rfProofOps           // (c) the multistore proof op re-encoded (store infos in another order); legacy proofs only
	rfHeaderEnc          // (c) the header re-encoded (other proposer priorities in the validator list)
	rfForged             // (d) same cross-chain id, altered payload
	nReplayForms
)

var replayFormNames = [nReplayForms]string{"a_identical_tx", "a_same_params", "b_later_header", "b_other_commit", "c_keypath_respelled", "c_proof_ops_reencoded", "c_header_reencoded", "d_forged_payload"}

func (d tmDepositor) GenerateReplay(rng *kernel.RNG, tier string) *kernel.Plan {
	p := &kernel.Plan{Cfg: map[string]int64{}, Seed: rng.Uint64() | 1}
	p.Cfg["famsel"] = int64(rng.Intn(len(d.fams)))
	p.Cfg["nsw"] = int64(1 + rng.Intn(3))
	p.Cfg["nmsg"] = int64(3 + rng.Intn(4))
	p.Cfg["recur"] = 0
	p.Cfg["followers"] = int64(rng.Intn(3) / 2)
	p.Cfg["net"] = int64(rng.Intn(2))
	n := 10 + rng.Intn(8)
	if rng.Chance(0.5) {
		p.Steps = append(p.Steps, kernel.Step{Op: "sync"})
	}
	for i := 0; i < n; i++ {
		r := rng.Float()
		switch {
		case r < 0.30:
			twin := int64(0)
			if rng.Chance(0.25) {
				twin = 1
			}
			p.Steps = append(p.Steps, kernel.Step{Op: "dep", A: []int64{int64(rng.Intn(8)), int64(rng.Intn(8)), int64(rng.Intn(5)), twin, int64(rng.Intn(2))}})
		case r < 0.66:
			p.Steps = append(p.Steps, kernel.Step{Op: "rep", A: []int64{int64(rng.Intn(8)), int64(rng.Intn(nReplayForms)), int64(rng.Intn(16)), int64(rng.Intn(8))}})
		case r < 0.76:
			p.Steps = append(p.Steps, kernel.Step{Op: "bad", A: []int64{int64(rng.Intn(4)), int64(rng.Intn(8))}})
		case r < 0.84:
			p.Steps = append(p.Steps, kernel.Step{Op: "sync"})
		case r < 0.93:
			p.Steps = append(p.Steps, kernel.Step{Op: "blk"})
		case r < 0.98:
			p.Steps = append(p.Steps, kernel.Step{Op: "restart", A: []int64{int64(rng.Intn(2))}})
		default:
			p.Steps = append(p.Steps, kernel.Step{Op: "idle"})
		}
	}
	p.Steps = append(p.Steps, kernel.Step{Op: "blk"}, kernel.Step{Op: "sweep", A: []int64{int64(rng.Intn(3))}}, kernel.Step{Op: "blk"})
	return p
}

// c20Tx is one queued transaction and what the model knows about it.
type c20Tx struct {
	tx     *types.Transaction
	label  string
	ccid   string // hex cross-chain id carried ("" for header syncs)
	msg    *simMsg
	valid  bool // built as a fully valid submission of a committed message
	replay bool // the id was already accepted (or is queued earlier in the same block) when this was built
	form   int
	a      *artefact
	ops    []merkle.ProofOp
	kp     string
	value  []byte
	height int64
}

type c20Exec struct {
	x        *exec
	router   string
	pending  []*c20Tx
	accepted map[string]*c20Tx // by ccid: the transaction that was accepted
	order    []string          // accepted ids in acceptance order
	universe []string          // every cross-chain id whose done mark is watched
	byID     map[string]*simMsg
	sig      []byte
}

func (d tmDepositor) ExecuteReplay(run *kernel.Run) {
	plan := run.Plan
	fam := famByName(d.fams[int(abs64(plan.C("famsel", 0))%int64(len(d.fams)))])
	h, err := e1.NewHarness(run, 4, int(abs64(plan.C("followers", 0))%2), uint32(1+abs64(plan.C("net", 0))%2), 100000)
	if err != nil {
		panic(err)
	}
	defer h.Close()
	x := newExec(run, h, fam)
	if x == nil {
		return
	}
	e := &c20Exec{x: x, router: d.router, accepted: map[string]*c20Tx{}, byID: map[string]*simMsg{}}
	x.ensureForged()
	for _, m := range append(append([]*simMsg{}, x.c.msgs...), x.forgedMsg) {
		id := hex.EncodeToString(m.param.CrossChainID)
		e.universe = append(e.universe, id)
		e.byID[id] = m
	}
	sort.Strings(e.universe)
	run.Probe("c20_run:" + d.router)
	for i, st := range plan.Steps {
		run.StepNo = i
		run.Steps++
		ok := true
		switch st.Op {
		case "sync":
			ok = e.flush() && e.sync()
		case "dep":
			ok = e.stepDeposit(st)
		case "rep":
			ok = e.stepReplay(st)
		case "bad":
			ok = e.stepBad(st)
		case "blk":
			ok = e.flush()
		case "idle":
			if ok = e.flush(); ok {
				_, ok = h.Exec()
			}
		case "restart":
			if ok = e.flush(); ok {
				if err := h.Restart(int(abs64(st.Arg(0)))); err != nil {
					panic(fmt.Sprintf("lctm: restart: %v", err))
				}
				ok = e.checkMarks(h.View(), "after restart")
			}
		case "sweep": // every accepted message once more, as a fresh valid submission
			ok = e.flush()
			for k, id := range e.order {
				if !ok {
					break
				}
				ok = e.replay(e.accepted[id], []int{rfSameParams, rfLaterHdr, rfKeyPath}[int(abs64(st.Arg(0))+int64(k))%3], int64(k), int64(k))
				if len(e.pending) >= 3 {
					ok = ok && e.flush()
				}
			}
		}
		if ok && len(e.pending) >= 3 {
			ok = e.flush()
		}
		if !ok {
			return
		}
	}
	if !e.flush() {
		return
	}
	if len(e.order) > 0 && run.Probes["c20_replay_rejected:"+d.router] > 0 {
		run.Nontrivial(append([]byte(d.router+"|"+fam.name+"|"), e.sig...))
	}
	run.Sample = map[string]interface{}{"router": d.router, "flavour": fam.name, "messages": len(x.c.msgs), "accepted": len(e.order), "outcomes": string(e.sig)}
}

// sync submits the next honest epoch-switch header in a block of its own.
func (e *c20Exec) sync() bool {
	x := e.x
	n := x.c.nextSwitchExt(x.cur.height)
	if n == 0 {
		x.run.Logf("sync: chain exhausted")
		return true
	}
	e.pending = append(e.pending, &c20Tx{tx: x.hdrTx([]*artefact{x.c.honest(n)}), label: "sync"})
	return e.flush()
}

// heights returns the non-switch heights whose header carries the currently trusted set and
// whose state already contains m.
func (e *c20Exec) heights(m *simMsg) []int64 {
	x := e.x
	T := x.cur.height
	hi := x.c.nextSwitchAfter(T)
	if hi == 0 {
		hi = x.c.maxH + 1
	}
	var out []int64
	for h := T + 1; h < hi; h++ {
		if m == nil || m.commitH <= h {
			out = append(out, h)
		}
	}
	return out
}

func pick64(l []int64, sel int64) int64 { return l[int(abs64(sel)%int64(len(l)))] }

// respell renders the key path with the other encodings merkle.KeyPathToKeys understands.
func respell(store string, key []byte) string {
	return "/x:" + hex.EncodeToString([]byte(store)) + "/" + url.PathEscape(string(key))
}

// permuteMultistore re-encodes a multistore proof op with its store infos in reverse order.
func permuteMultistore(op merkle.ProofOp) (merkle.ProofOp, bool) {
	var m msProofOp
	if op.Type != "multistore" || plainCdc.UnmarshalBinaryLengthPrefixed(op.Data, &m) != nil || m.Proof == nil || len(m.Proof.StoreInfos) < 2 {
		return op, false
	}
	s := m.Proof.StoreInfos
	for i, j := 0, len(s)-1; i < j; i, j = i+1, j-1 {
		s[i], s[j] = s[j], s[i]
	}
	op.Data = plainCdc.MustMarshalBinaryLengthPrefixed(m)
	return op, true
}

// header builds a verifiable header for height h: enc 0 = canonical full commit, 1 = a minimal
// winning subset signs in another round, 2 = validator list carries other proposer priorities.
func (e *c20Exec) header(h int64, enc int, sel int64) *artefact {
	x := e.x
	f, set, _ := x.fieldsAt(h)
	order := x.c.b.canonOrder(set, f.version)
	sp := &artefactSpec{f: f, order: order, canonical: true, appVer: x.c.stateVer(h), votes: votesFromMask(len(order), 1<<uint(len(order))-1), desc: fmt.Sprintf("c20 h=%d enc=%d", h, enc)}
	switch enc {
	case 1:
		m, _ := pickSubset(order, 0, sel)
		sp.votes, sp.round = votesFromMask(len(order), m), 1
	case 2:
		for i, v := range order {
			sp.submit = append(sp.submit, valEntry{key: v.key, power: v.power, priority: int64(5 + 3*i)})
		}
	}
	return x.c.build(sp)
}

// submission assembles a deposit transaction of value under key at height h.
func (e *c20Exec) submission(label string, m *simMsg, h int64, hdrEnc int, respelled, permuted bool, value []byte, sel int64) *c20Tx {
	x := e.x
	c := x.c
	a := e.header(h, hdrEnc, sel)
	ops, ex, ok := c.app.prove(a.appVer, c.fam.store, m.key)
	if !ok || !ex {
		return nil
	}
	if permuted {
		if op, did := permuteMultistore(ops[1]); did {
			ops = []merkle.ProofOp{ops[0], op}
		} else {
			return nil
		}
	}
	kp := keyPath(c.fam.store, m.key)
	if respelled {
		kp = respell(c.fam.store, m.key)
	}
	p := &c20Tx{label: label, ccid: hex.EncodeToString(m.param.CrossChainID), msg: m, a: a, ops: ops, kp: kp, value: value, height: h}
	p.tx = x.depTx(a, h, ops, kp, value)
	return p
}

func (e *c20Exec) queued(id string) bool {
	for _, q := range e.pending {
		if q.ccid == id && q.valid {
			return true
		}
	}
	return false
}

func (e *c20Exec) queue(p *c20Tx) {
	_, acc := e.accepted[p.ccid]
	p.replay = acc || e.queued(p.ccid)
	e.pending = append(e.pending, p)
	if p.replay {
		e.x.run.Fault("c20_replay:" + replayFormNames[p.form])
	}
	e.x.run.Logf("queue %s id=%s h=%d valid=%v replay=%v", p.label, p.ccid[:8], p.height, p.valid, p.replay)
}

// stepDeposit: a valid first deposit of a committed, not yet accepted message; the encoding of
// the first submission varies too, so every re-encoding used for replays is also seen accepted.
func (e *c20Exec) stepDeposit(st kernel.Step) bool {
	x := e.x
	var avail []*simMsg
	for _, m := range x.c.msgs {
		id := hex.EncodeToString(m.param.CrossChainID)
		if _, acc := e.accepted[id]; !acc && !e.queued(id) && len(e.heights(m)) > 0 {
			avail = append(avail, m)
		}
	}
	if len(avail) == 0 { // nothing within reach: follow the chain instead
		if !e.flush() {
			return false
		}
		return e.sync()
	}
	m := avail[int(abs64(st.Arg(0))%int64(len(avail)))]
	h := pick64(e.heights(m), st.Arg(1))
	enc := int(abs64(st.Arg(2)) % 5)
	var p *c20Tx
	switch enc {
	case 1:
		p = e.submission("first/other_commit", m, h, 1, false, false, m.raw, st.Arg(1))
	case 2:
		p = e.submission("first/keypath_respelled", m, h, 0, true, false, m.raw, 0)
	case 3:
		p = e.submission("first/proof_ops_reencoded", m, h, 0, false, true, m.raw, 0)
	case 4:
		p = e.submission("first/header_reencoded", m, h, 2, false, false, m.raw, 0)
	}
	if p == nil {
		p = e.submission("first/plain", m, h, 0, false, false, m.raw, 0)
	}
	if p == nil {
		return true
	}
	p.valid = true
	e.queue(p)
	if st.Arg(3)%2 == 1 { // the replay rides in the same block, right behind the original
		q := e.submission("twin", m, h, int(abs64(st.Arg(4))%2), st.Arg(4)%2 == 1, false, m.raw, 1)
		if q != nil {
			q.valid, q.form = true, rfSameParams
			e.queue(q)
		}
	}
	return true
}

func (e *c20Exec) stepReplay(st kernel.Step) bool {
	if len(e.order) == 0 {
		e.x.run.Logf("rep: nothing accepted yet")
		return true
	}
	o := e.accepted[e.order[int(abs64(st.Arg(0))%int64(len(e.order)))]]
	return e.replay(o, int(abs64(st.Arg(1))%nReplayForms), st.Arg(2), st.Arg(3))
}

// replay queues a replay of the accepted submission o in the given form.
func (e *c20Exec) replay(o *c20Tx, form int, aux, hsel int64) bool {
	x := e.x
	m := o.msg
	hs := e.heights(m)
	var p *c20Tx
	mk := func(label string, hdrEnc int, respelled, permuted bool, value []byte) {
		if len(hs) == 0 {
			return
		}
		h := pick64(hs, hsel)
		if form == rfLaterHdr { // a height different from the accepted one, later if possible
			var other []int64
			for _, c := range hs {
				if c > o.height {
					other = append(other, c)
				}
			}
			if len(other) == 0 {
				for _, c := range hs {
					if c != o.height {
						other = append(other, c)
					}
				}
			}
			if len(other) == 0 {
				return
			}
			h = pick64(other, hsel)
		}
		p = e.submission(label, m, h, hdrEnc, respelled, permuted, value, aux)
	}
	switch form {
	case rfIdentical:
		for _, q := range e.pending { // a block cannot carry one transaction twice
			if q.tx == o.tx {
				return true
			}
		}
		p = &c20Tx{tx: o.tx, label: "replay/" + replayFormNames[form], ccid: o.ccid, msg: m, a: o.a, ops: o.ops, kp: o.kp, value: o.value, height: o.height}
	case rfSameParams:
		p = &c20Tx{label: "replay/" + replayFormNames[form], ccid: o.ccid, msg: m, a: o.a, ops: o.ops, kp: o.kp, value: o.value, height: o.height}
		p.tx = x.depTx(o.a, o.height, o.ops, o.kp, o.value)
	case rfLaterHdr:
		mk("replay/"+replayFormNames[form], int(abs64(aux)%2), false, false, m.raw)
	case rfOtherCommit:
		mk("replay/"+replayFormNames[form], 1, false, false, m.raw)
	case rfKeyPath:
		mk("replay/"+replayFormNames[form], 0, o.kp != respell(x.c.fam.store, m.key), false, m.raw)
	case rfProofOps:
		mk("replay/"+replayFormNames[form], 0, false, true, m.raw)
	case rfHeaderEnc:
		mk("replay/"+replayFormNames[form], 2, false, false, m.raw)
	case rfForged:
		fp := *m.param
		fp.Args = append([]byte{0xfa, byte(aux)}, m.param.Args...)
		mk("replay/"+replayFormNames[form], 0, false, false, serParam(&fp))
	}
	if p == nil {
		x.run.Logf("rep %s: not expressible now (no suitable header / proof format)", replayFormNames[form])
		return true
	}
	p.form = form
	p.valid = form != rfForged
	e.queue(p)
	return true
}

// stepBad: submissions that were never valid; no done mark may ever appear for their ids.
func (e *c20Exec) stepBad(st kernel.Step) bool {
	x := e.x
	c := x.c
	hs := e.heights(nil)
	if len(hs) == 0 {
		return true
	}
	h := pick64(hs, st.Arg(1))
	a := e.header(h, 0, 0)
	fm := x.forgedMsg
	id := hex.EncodeToString(fm.param.CrossChainID)
	var p *c20Tx
	switch abs64(st.Arg(0)) % 4 {
	case 0: // a message of the attacker's own state, proven against it, under an honest header
		ops, _, _ := x.forged.prove(x.forged.versions()-1, c.fam.store, fm.key)
		p = &c20Tx{label: "bad/forged_state", ccid: id, msg: fm, a: a, ops: ops, kp: keyPath(c.fam.store, fm.key), value: fm.raw, height: h}
	case 1: // absence proof offered for the value
		ops, ex, ok := c.app.prove(a.appVer, c.fam.store, fm.key)
		if !ok || ex {
			return true
		}
		p = &c20Tx{label: "bad/absence_ops", ccid: id, msg: fm, a: a, ops: ops, kp: keyPath(c.fam.store, fm.key), value: fm.raw, height: h}
	case 2: // a committed message that is not yet in the state of this header (proof from the later state)
		var later *simMsg
		for _, q := range c.msgs {
			if q.commitH > h {
				later = q
				break
			}
		}
		if later == nil {
			return true
		}
		ops, _, _ := c.app.prove(later.idx+1, c.fam.store, later.key)
		p = &c20Tx{label: "bad/not_yet_committed", ccid: hex.EncodeToString(later.param.CrossChainID), msg: later, a: a, ops: ops, kp: keyPath(c.fam.store, later.key), value: later.raw, height: h}
	default: // valid proof, under-signed header
		var m *simMsg
		for _, q := range c.msgs {
			if q.commitH <= h {
				m = q
			}
		}
		if m == nil {
			return true
		}
		f, set, _ := x.fieldsAt(h)
		wa, _ := x.mkFaulty(f, set, true, 3, st.Arg(1), c.stateVer(h))
		ops, ex, ok := c.app.prove(wa.appVer, c.fam.store, m.key)
		if !ok || !ex {
			return true
		}
		p = &c20Tx{label: "bad/weak_header", ccid: hex.EncodeToString(m.param.CrossChainID), msg: m, a: wa, ops: ops, kp: keyPath(c.fam.store, m.key), value: m.raw, height: h}
	}
	p.tx = x.depTx(p.a, p.height, p.ops, p.kp, p.value)
	p.form = -1
	e.pending = append(e.pending, p)
	x.run.Fault("c20_" + p.label)
	x.run.Logf("queue %s id=%s h=%d", p.label, p.ccid[:8], h)
	return true
}

// marks reads the done record of every watched id: crossChainManager || "doneTx" || chain(8) || id.
func (e *c20Exec) marks(v e1.View) map[string]bool {
	out := map[string]bool{}
	for _, id := range e.universe {
		raw, _ := hex.DecodeString(id)
		out[id] = v.Done(e.x.c.polyID, raw)
	}
	return out
}

func (e *c20Exec) checkMarks(v e1.View, when string) bool {
	return e.compareMarks(e.marks(v), when)
}

func (e *c20Exec) compareMarks(got map[string]bool, when string) bool {
	run := e.x.run
	for _, id := range e.universe {
		_, acc := e.accepted[id]
		switch {
		case got[id] && !acc:
			run.Fail("C20", "done-mark-without-acceptance:"+e.router, "%s: %s: a done record exists for (chain %d, id %s) although that message was never accepted", e.x.fam.name, when, e.x.c.polyID, id[:16])
			return false
		case !got[id] && acc:
			run.Fail("C20", "done-mark-missing:"+e.router, "%s: %s: no done record for (chain %d, id %s) although the message was accepted", e.x.fam.name, when, e.x.c.polyID, id[:16])
			return false
		}
	}
	return true
}

func (e *c20Exec) flush() bool {
	if len(e.pending) == 0 {
		return true
	}
	x := e.x
	run := x.run
	pend := e.pending
	e.pending = nil
	var txs []*types.Transaction
	for _, p := range pend {
		txs = append(txs, p.tx)
	}
	var snaps []map[string]bool
	traces, ok := x.h.ExecInspect(func(tr []*e1.TxTrace) {
		for _, t := range tr {
			snaps = append(snaps, e.marks(t.Post))
		}
	}, txs...)
	if !ok {
		return false
	}
	if len(traces) != len(pend) || len(snaps) != len(pend) {
		panic(fmt.Sprintf("lctm c20: %d traces / %d snapshots for %d transactions", len(traces), len(snaps), len(pend)))
	}
	for i, t := range traces {
		p := pend[i]
		run.Logf("tx %d [%s] ok=%v writes=%d events=%d", i, p.label, t.OK, len(t.Writes), len(t.Events))
		e.sig = append(e.sig, []byte(fmt.Sprintf("%s:%v;", p.label, t.OK))...)
		run.State([]byte(fmt.Sprintf("c20|%s|%v|%d", p.label, t.OK, len(e.order))))
		if p.ccid == "" { // header sync
			continue
		}
		fam := x.fam.name
		if t.OK {
			id := p.ccid
			if got := acceptedMessage(t); got != nil { // the id the router derived
				mp := new(ccom.MakeTxParam)
				if mp.Deserialization(common.NewZeroCopySource(got)) == nil {
					id = hex.EncodeToString(mp.CrossChainID)
				}
			}
			if first, dup := e.accepted[id]; dup {
				run.Fail("C20", "accepted-twice:"+e.router, "%s: (chain %d, id %s) accepted again by [%s] (first accepted by [%s] at h=%d; now h=%d, key path %q)", fam, x.c.polyID, id[:16], p.label, first.label, first.height, p.height, p.kp)
				return false
			}
			if !p.valid || !bytes.Equal(x.c.app.get(p.a.appVer, x.c.fam.store, p.msg.key), x.c.storedValue(p.value)) {
				run.Fail("C30", "deposit-accepted:message-not-in-committed-state:"+x.c.fam.driver, "%s: [%s] accepted although it was never a valid submission", fam, p.label)
				return false
			}
			e.accepted[id] = p
			e.order = append(e.order, id)
			run.Probe("c20_deposit_accepted:" + e.router)
			run.Probe("c20_accepted_via:" + p.label + ":" + e.router)
			if !snaps[i][id] {
				run.Fail("C20", "done-mark-missing:"+e.router, "%s: [%s] accepted (chain %d, id %s) but the done record is absent right after the transaction", fam, p.label, x.c.polyID, id[:16])
				return false
			}
		} else {
			if len(t.Writes) != 0 || len(t.Events) != 0 || len(t.Cross) != 0 {
				run.Fail("C20", "replay-changed-state:"+e.router, "%s: refused submission [%s] left %d writes, %d events, %d cross-chain records", fam, p.label, len(t.Writes), len(t.Events), len(t.Cross))
				return false
			}
			_, acc := e.accepted[p.ccid]
			switch {
			case acc && p.form >= 0:
				run.Probe("c20_replay_rejected:" + e.router)
				run.Probe("c20_replay_rejected_form:" + replayFormNames[p.form] + ":" + e.router)
			case p.form < 0 || !p.valid:
				run.Probe("c20_invalid_submission_rejected")
			default:
				run.Probe("c20_valid_first_deposit_rejected")
				run.Logf("note: valid first deposit [%s] was rejected", p.label)
			}
		}
		if !e.compareMarks(snaps[i], fmt.Sprintf("after tx [%s]", p.label)) {
			return false
		}
	}
	x.cur = readTracked(x.h.View(), x.c.polyID)
	x.cursor = x.cur
	return e.checkMarks(x.h.View(), "committed state")
}
