package lctm

import (
	"fmt"
	"time"

	ccmcosmos "github.com/polynetwork/poly/native/service/cross_chain_manager/cosmos"
	ptypes "github.com/polynetwork/poly/native/service/header_sync/polygon/types"
	"github.com/tendermint/tendermint/crypto/merkle"

	"polysim/kernel"
)

func init() {
	kernel.Register(&kernel.Check{ID: "LCSPIKE", Level: "exploration", QuickRuns: 1, ThoroughRuns: 1,
		Generate: func(rng *kernel.RNG, idx int, tier string) *kernel.Plan {
			return &kernel.Plan{Cfg: map[string]int64{}, Steps: []kernel.Step{{Op: "x"}}}
		},
		Execute: func(run *kernel.Run) {
			for _, mk := range []func() appState{func() appState { return newLegacyState([]string{"ccm", "bank", "acc"}) }, func() appState { return newICS23State([]string{"ccm", "bank", "acc"}) }} {
				t0 := time.Now()
				st := mk()
				st.commit([]kvWrite{{"bank", []byte("a"), []byte("1")}, {"acc", []byte("zz"), []byte("9")}})
				st.commit([]kvWrite{{"ccm", []byte("k1"), []byte("v1")}, {"ccm", []byte("k3"), []byte("v3")}})
				v, ah := st.commit([]kvWrite{{"ccm", []byte("k5"), []byte("v5")}, {"ccm", []byte("k7"), []byte("v7")}, {"ccm", []byte("k9"), []byte("v9")}})
				prt := ccmcosmos.ProofRuntime()
				for _, k := range []string{"k1", "k3", "k5", "k9", "k0", "k4", "kz"} {
					ops, ex, ok := st.prove(v, "ccm", []byte(k))
					p := &merkle.Proof{Ops: ops}
					var err error
					if ex {
						err = prt.VerifyValue(p, ah, keyPath("ccm", []byte(k)), st.get(v, "ccm", []byte(k)))
					} else {
						err = prt.VerifyAbsence(p, ah, keyPath("ccm", []byte(k)))
					}
					fmt.Printf("%T key %s exists=%v ok=%v verify=%v ops=%s,%s len=%d\n", st, k, ex, ok, err, ops[0].Type, ops[1].Type, len(encodeProof(ops)))
					if ex {
						err = prt.VerifyValue(p, ah, keyPath("ccm", []byte(k)), []byte("other"))
						fmt.Printf("   wrong value -> %v\n", err != nil)
						err = prt.VerifyValue(p, st.appHash(1), keyPath("ccm", []byte(k)), st.get(v, "ccm", []byte(k)))
						fmt.Printf("   wrong root -> %v\n", err != nil)
					}
				}
				fmt.Println("elapsed", time.Since(t0))
			}
			// heimdall nil precommit roundtrip
			cdc := ptypes.NewCDC()
			c := &ptypes.Commit{Precommits: []*ptypes.CommitSig{nil, {Type: ptypes.PrecommitType, Height: 5, ValidatorIndex: 1}, nil}}
			bz := cdc.MustMarshalBinaryBare(c)
			var d ptypes.Commit
			err := cdc.UnmarshalBinaryBare(bz, &d)
			fmt.Println("heimdall commit roundtrip", err, len(d.Precommits), d.Precommits[0] == nil, d.Precommits[1] != nil, d.Precommits[2] == nil)
			run.Nontrivial([]byte{1})
		}})
}
