package lctm

// Application state of the simulated Tendermint chain: a versioned multi-store whose root is
// the AppHash of the headers, with existence and absence proofs in the two formats the poly
// handlers verify:
//
//   - legacy (cosmos-sdk 0.39 / okex / heimdall): a real cosmos-sdk rootmulti.Store over IAVL
//     stores on a tm-db MemDB; proofs are what Store.Query(Prove=true) returns
//     (iavl:v / iavl:a range-proof op + multistore op);
//   - ics23 (stargate, cosmos handler only): two levels of Tendermint simple-merkle maps with
//     hand-built ICS-23 existence / non-existence proofs wrapped in "ics23:simple" proof ops.
//
// The reference content (store -> key -> value per version) is kept next to it; the oracle of
// C30 only consults that map, never a proof verifier.

import (
	"bytes"
	"crypto/sha256"
	"encoding/binary"
	"fmt"
	"sort"

	ics23 "github.com/confio/ics23/go"
	"github.com/cosmos/cosmos-sdk/store/rootmulti"
	sdk "github.com/cosmos/cosmos-sdk/store/types"
	amino "github.com/tendermint/go-amino"
	abci "github.com/tendermint/tendermint/abci/types"
	"github.com/tendermint/tendermint/crypto/merkle"
	dbm "github.com/tendermint/tm-db"
)

var plainCdc = amino.NewCodec()

// kvWrite is one write applied when going from version j-1 to version j.
type kvWrite struct {
	store string
	key   []byte
	value []byte
}

type appState interface {
	// commit applies the writes and returns the new version index (0-based) and its app hash.
	commit(ws []kvWrite) (int, []byte)
	appHash(ver int) []byte
	// get returns the reference content.
	get(ver int, store string, key []byte) []byte
	// prove returns the proof ops for key in store at version ver: an existence proof if the
	// key is present, otherwise an absence proof. ok=false if no proof can be built (empty store).
	prove(ver int, store string, key []byte) (ops []merkle.ProofOp, exists bool, ok bool)
	versions() int
}

type refContent struct {
	vers []map[string]map[string][]byte
}

func (r *refContent) push(ws []kvWrite) {
	cur := map[string]map[string][]byte{}
	if n := len(r.vers); n > 0 {
		for s, m := range r.vers[n-1] {
			cm := map[string][]byte{}
			for k, v := range m {
				cm[k] = v
			}
			cur[s] = cm
		}
	}
	for _, w := range ws {
		if cur[w.store] == nil {
			cur[w.store] = map[string][]byte{}
		}
		cur[w.store][string(w.key)] = append([]byte{}, w.value...)
	}
	r.vers = append(r.vers, cur)
}

func (r *refContent) get(ver int, store string, key []byte) []byte {
	if ver < 0 || ver >= len(r.vers) {
		return nil
	}
	v, ok := r.vers[ver][store][string(key)]
	if !ok {
		return nil
	}
	return v
}

// ---------------------------------------------------------------------------------------
// legacy: real rootmulti store

type legacyState struct {
	ref    refContent
	rs     *rootmulti.Store
	keys   map[string]*sdk.KVStoreKey
	hashes [][]byte
}

func newLegacyState(stores []string) *legacyState {
	st := &legacyState{rs: rootmulti.NewStore(dbm.NewMemDB()), keys: map[string]*sdk.KVStoreKey{}}
	names := append([]string{}, stores...)
	sort.Strings(names)
	for _, n := range names {
		k := sdk.NewKVStoreKey(n)
		st.keys[n] = k
		st.rs.MountStoreWithDB(k, sdk.StoreTypeIAVL, nil)
	}
	if err := st.rs.LoadLatestVersion(); err != nil {
		panic(fmt.Sprintf("lctm: rootmulti load: %v", err))
	}
	return st
}

func (st *legacyState) commit(ws []kvWrite) (int, []byte) {
	for _, w := range ws {
		k := st.keys[w.store]
		if k == nil {
			panic("lctm: write to unmounted store " + w.store)
		}
		st.rs.GetKVStore(k).Set(w.key, w.value)
	}
	id := st.rs.Commit()
	st.ref.push(ws)
	st.hashes = append(st.hashes, append([]byte{}, id.Hash...))
	if int(id.Version) != len(st.hashes) {
		panic("lctm: rootmulti version out of step")
	}
	return len(st.hashes) - 1, id.Hash
}

func (st *legacyState) appHash(ver int) []byte { return st.hashes[ver%len(st.hashes)] }
func (st *legacyState) versions() int          { return len(st.hashes) }
func (st *legacyState) get(ver int, store string, key []byte) []byte {
	return st.ref.get(ver, store, key)
}

// mirror of rootmulti's unexported proof payload, used only to re-encode the multistore op
// with its StoreInfos sorted by name (rootmulti fills them in Go map order, which would make
// the proof *bytes* - hence transaction hashes - differ between executions of one plan).
type msCommitID struct {
	Version int64
	Hash    []byte
}
type msStoreCore struct{ CommitID msCommitID }
type msStoreInfo struct {
	Name string
	Core msStoreCore
}
type msProof struct{ StoreInfos []msStoreInfo }
type msProofOp struct {
	Proof *msProof `json:"proof"`
}

func canonMultistoreOp(op merkle.ProofOp) merkle.ProofOp {
	var m msProofOp
	if err := plainCdc.UnmarshalBinaryLengthPrefixed(op.Data, &m); err != nil || m.Proof == nil {
		panic(fmt.Sprintf("lctm: cannot decode multistore op: %v", err))
	}
	sort.Slice(m.Proof.StoreInfos, func(i, j int) bool { return m.Proof.StoreInfos[i].Name < m.Proof.StoreInfos[j].Name })
	op.Data = plainCdc.MustMarshalBinaryLengthPrefixed(m)
	return op
}

func (st *legacyState) prove(ver int, store string, key []byte) ([]merkle.ProofOp, bool, bool) {
	if st.keys[store] == nil || len(key) == 0 {
		return nil, false, false
	}
	res := st.rs.Query(abci.RequestQuery{Path: "/" + store + "/key", Data: key, Height: int64(ver + 1), Prove: true})
	if res.Code != 0 || res.Proof == nil || len(res.Proof.Ops) != 2 {
		return nil, false, false
	}
	ops := []merkle.ProofOp{res.Proof.Ops[0], canonMultistoreOp(res.Proof.Ops[1])}
	return ops, res.Value != nil, true
}

// ---------------------------------------------------------------------------------------
// ics23: two levels of Tendermint simple-merkle maps

type ics23State struct {
	ref    refContent
	stores []string
	hashes [][]byte
}

func newICS23State(stores []string) *ics23State {
	names := append([]string{}, stores...)
	sort.Strings(names)
	return &ics23State{stores: names}
}

func (st *ics23State) commit(ws []kvWrite) (int, []byte) {
	st.ref.push(ws)
	ver := len(st.ref.vers) - 1
	root, _ := st.rootTree(ver)
	st.hashes = append(st.hashes, root)
	return ver, root
}
func (st *ics23State) appHash(ver int) []byte { return st.hashes[ver%len(st.hashes)] }
func (st *ics23State) versions() int          { return len(st.hashes) }
func (st *ics23State) get(ver int, store string, key []byte) []byte {
	return st.ref.get(ver, store, key)
}

type smLeaf struct{ key, value []byte }

func uvarint(n int) []byte {
	b := make([]byte, binary.MaxVarintLen64)
	return b[:binary.PutUvarint(b, uint64(n))]
}

// leaf hash of ics23.TendermintSpec: sha256(0x00 || len(key) || key || len(sha256(value)) || sha256(value))
func smLeafHash(l smLeaf) []byte {
	vh := sha256.Sum256(l.value)
	h := sha256.New()
	h.Write([]byte{0})
	h.Write(uvarint(len(l.key)))
	h.Write(l.key)
	h.Write(uvarint(len(vh)))
	h.Write(vh[:])
	return h.Sum(nil)
}

func smInner(l, r []byte) []byte {
	h := sha256.New()
	h.Write([]byte{1})
	h.Write(l)
	h.Write(r)
	return h.Sum(nil)
}

func splitPoint(n int) int {
	k := 1
	for k*2 < n {
		k *= 2
	}
	return k
}

// smRoot returns the root of the leaves (sorted by key) and, if idx >= 0, the ICS-23 path of
// leaf idx from the leaf upwards.
func smRoot(leaves []smLeaf, idx int) ([]byte, []*ics23.InnerOp) {
	switch len(leaves) {
	case 0:
		e := sha256.Sum256(nil)
		return e[:], nil
	case 1:
		return smLeafHash(leaves[0]), nil
	}
	k := splitPoint(len(leaves))
	var lp, rp []*ics23.InnerOp
	li, ri := -1, -1
	if idx >= 0 && idx < k {
		li = idx
	} else if idx >= k {
		ri = idx - k
	}
	l, lp := smRoot(leaves[:k], li)
	r, rp := smRoot(leaves[k:], ri)
	var path []*ics23.InnerOp
	if li >= 0 {
		path = append(lp, &ics23.InnerOp{Hash: ics23.HashOp_SHA256, Prefix: []byte{1}, Suffix: r})
	} else if ri >= 0 {
		path = append(rp, &ics23.InnerOp{Hash: ics23.HashOp_SHA256, Prefix: append([]byte{1}, l...)})
	}
	return smInner(l, r), path
}

func sortedLeaves(m map[string][]byte) []smLeaf {
	ks := make([]string, 0, len(m))
	for k := range m {
		ks = append(ks, k)
	}
	sort.Strings(ks)
	out := make([]smLeaf, len(ks))
	for i, k := range ks {
		out[i] = smLeaf{[]byte(k), m[k]}
	}
	return out
}

func (st *ics23State) storeLeaves(ver int, store string) []smLeaf {
	return sortedLeaves(st.ref.vers[ver][store])
}

func (st *ics23State) rootTree(ver int) ([]byte, []smLeaf) {
	var top []smLeaf
	for _, s := range st.stores {
		r, _ := smRoot(st.storeLeaves(ver, s), -1)
		top = append(top, smLeaf{[]byte(s), r})
	}
	r, _ := smRoot(top, -1)
	return r, top
}

func smExistence(leaves []smLeaf, idx int) *ics23.ExistenceProof {
	_, path := smRoot(leaves, idx)
	return &ics23.ExistenceProof{Key: leaves[idx].key, Value: leaves[idx].value, Leaf: ics23.TendermintSpec.LeafSpec, Path: path}
}

func commitmentOp(key []byte, p *ics23.CommitmentProof) merkle.ProofOp {
	bz, err := p.Marshal()
	if err != nil {
		panic(err)
	}
	return merkle.ProofOp{Type: "ics23:simple", Key: key, Data: bz}
}

func (st *ics23State) prove(ver int, store string, key []byte) ([]merkle.ProofOp, bool, bool) {
	if ver < 0 || ver >= len(st.ref.vers) || len(key) == 0 {
		return nil, false, false
	}
	_, top := st.rootTree(ver)
	ti := -1
	for i, l := range top {
		if string(l.key) == store {
			ti = i
		}
	}
	if ti < 0 {
		return nil, false, false
	}
	leaves := st.storeLeaves(ver, store)
	if len(leaves) == 0 {
		return nil, false, false
	}
	upper := commitmentOp([]byte(store), &ics23.CommitmentProof{Proof: &ics23.CommitmentProof_Exist{Exist: smExistence(top, ti)}})
	pos := sort.Search(len(leaves), func(i int) bool { return bytes.Compare(leaves[i].key, key) >= 0 })
	if pos < len(leaves) && bytes.Equal(leaves[pos].key, key) {
		lower := commitmentOp(key, &ics23.CommitmentProof{Proof: &ics23.CommitmentProof_Exist{Exist: smExistence(leaves, pos)}})
		return []merkle.ProofOp{lower, upper}, true, true
	}
	ne := &ics23.NonExistenceProof{Key: key}
	if pos > 0 {
		ne.Left = smExistence(leaves, pos-1)
	}
	if pos < len(leaves) {
		ne.Right = smExistence(leaves, pos)
	}
	lower := commitmentOp(key, &ics23.CommitmentProof{Proof: &ics23.CommitmentProof_Nonexist{Nonexist: ne}})
	return []merkle.ProofOp{lower, upper}, false, true
}

// keyPath renders "/<store>/x:<hexkey>" like merkle.KeyPath does for (URL, hex) encodings.
func keyPath(store string, key []byte) string {
	var kp merkle.KeyPath
	kp = kp.AppendKey([]byte(store), merkle.KeyEncodingURL)
	kp = kp.AppendKey(key, merkle.KeyEncodingHex)
	return kp.String()
}

func encodeProof(ops []merkle.ProofOp) []byte {
	return plainCdc.MustMarshalBinaryBare(merkle.Proof{Ops: ops})
}

// proofValue mirrors the CosmosProofValue parameter struct of the cosmos and okex handlers.
type proofValue struct {
	Kp    string
	Value []byte
}

func encodeProofValue(kp string, value []byte) []byte {
	return plainCdc.MustMarshalBinaryBare(proofValue{Kp: kp, Value: value})
}
