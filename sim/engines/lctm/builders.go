package lctm

// Artefact builders: turn abstract header / commit / validator-set descriptions into the
// byte strings a relayer would submit, with real keys and real signatures, using the
// Tendermint type libraries that poly depends on (tendermint v0.33.7, the switcheo v0.34
// fork for block version >= 11, and poly's vendored Heimdall ("peppermint") types).
// All keys are derived from the plan seed; ed25519 and RFC-6979 ECDSA signatures are
// deterministic, so artefacts are byte-identical across executions of a plan.

import (
	"bytes"
	"crypto/sha256"
	"encoding/binary"
	"encoding/hex"
	"fmt"
	"sort"
	"time"

	hscosmos "github.com/polynetwork/poly/native/service/header_sync/cosmos"
	hsokex "github.com/polynetwork/poly/native/service/header_sync/okex"
	"github.com/polynetwork/poly/native/service/header_sync/okex/ethsecp256k1"
	hspolygon "github.com/polynetwork/poly/native/service/header_sync/polygon"
	ptypes "github.com/polynetwork/poly/native/service/header_sync/polygon/types"
	pcmn "github.com/polynetwork/poly/native/service/header_sync/polygon/types/common"
	psecp "github.com/polynetwork/poly/native/service/header_sync/polygon/types/secp256k1"
	tm34crypto "github.com/switcheo/tendermint/crypto"
	tm34ed "github.com/switcheo/tendermint/crypto/ed25519"
	tm34secp "github.com/switcheo/tendermint/crypto/secp256k1"
	tm34bytes "github.com/switcheo/tendermint/libs/bytes"
	tm34proto "github.com/switcheo/tendermint/proto/tendermint/types"
	tm34version "github.com/switcheo/tendermint/proto/tendermint/version"
	tm34types "github.com/switcheo/tendermint/types"
	amino "github.com/tendermint/go-amino"
	tmcrypto "github.com/tendermint/tendermint/crypto"
	"github.com/tendermint/tendermint/crypto/ed25519"
	"github.com/tendermint/tendermint/crypto/secp256k1"
	tmtypes "github.com/tendermint/tendermint/types"
	"github.com/tendermint/tendermint/version"
)

type keyKind int

const (
	kEd25519    keyKind = iota // tendermint ed25519
	kSecp256k1                 // tendermint secp256k1 (sha256, 64-byte R||S)
	kEthSecp                   // okex/ethermint eth_secp256k1 (keccak, compressed key)
	kPeppermint                // heimdall secp256k1 (keccak, 65-byte uncompressed key)
)

func (k keyKind) String() string {
	return [...]string{"ed25519", "secp256k1", "ethsecp256k1", "peppermint-secp256k1"}[k]
}

// simKey is a validator (or outsider) key pair.
type simKey struct {
	kind keyKind
	priv tmcrypto.PrivKey
	pub  tmcrypto.PubKey
	id   string // hex of the raw public key: the validator's identity in the reference model
}

func newKey(kind keyKind, seed uint64, label string, idx int) *simKey {
	secret := make([]byte, 8+len(label)+8)
	binary.BigEndian.PutUint64(secret, seed)
	copy(secret[8:], label)
	binary.BigEndian.PutUint64(secret[8+len(label):], uint64(idx))
	k := &simKey{kind: kind}
	switch kind {
	case kEd25519:
		p := ed25519.GenPrivKeyFromSecret(secret)
		k.priv, k.pub = p, p.PubKey()
		pk := k.pub.(ed25519.PubKeyEd25519)
		k.id = "ed:" + hex.EncodeToString(pk[:])
	case kSecp256k1:
		p := secp256k1.GenPrivKeySecp256k1(secret)
		k.priv, k.pub = p, p.PubKey()
		pk := k.pub.(secp256k1.PubKeySecp256k1)
		k.id = "secp:" + hex.EncodeToString(pk[:])
	case kEthSecp:
		p := secp256k1.GenPrivKeySecp256k1(secret) // valid scalar in [1, n-1]
		ep := ethsecp256k1.PrivKey(append([]byte{}, p[:]...))
		k.priv, k.pub = ep, ep.PubKey()
		k.id = "eth:" + hex.EncodeToString(k.pub.(ethsecp256k1.PubKey))
	case kPeppermint:
		p := psecp.GenPrivKeySecp256k1(secret)
		k.priv, k.pub = p, p.PubKey()
		pk := k.pub.(psecp.PubKeySecp256k1)
		k.id = "pm:" + hex.EncodeToString(pk[:])
	}
	return k
}

// sign returns the signature as a validator of that key type would put it into a commit.
func (k *simKey) sign(msg []byte) []byte {
	sig, err := k.priv.Sign(msg)
	if err != nil {
		panic(fmt.Sprintf("lctm: sign: %v", err))
	}
	if k.kind == kEthSecp && len(sig) == 65 {
		sig = sig[:64] // tendermint 0.33 caps commit signatures at 64 bytes; the recovery id is not needed
	}
	return sig
}

// valDef is one member of a validator set.
type valDef struct {
	key   *simKey
	power int64
}

// hdrFields / voteFields / commitFields are the family-independent descriptions.
type hdrFields struct {
	version  uint64
	chainID  string
	height   int64
	timeSec  int64
	lastHash []byte
	valsHash []byte
	nextHash []byte
	appHash  []byte
	proposer []byte
}

type voteFields struct {
	chainID    string
	height     int64
	round      int
	blockHash  []byte // nil = vote for nil
	partsTotal int
	partsHash  []byte
	tsNano     int64
}

func (v voteFields) equal(o voteFields) bool {
	return v.chainID == o.chainID && v.height == o.height && v.round == o.round && bytes.Equal(v.blockHash, o.blockHash) &&
		v.partsTotal == o.partsTotal && bytes.Equal(v.partsHash, o.partsHash) && v.tsNano == o.tsNano
}

const (
	flagAbsent = 0
	flagCommit = 1
	flagNil    = 2
)

type sigEntry struct {
	flag     int
	addr     []byte
	tsNano   int64
	sig      []byte
	valIndex int // heimdall only
}

type commitFields struct {
	height     int64
	round      int
	blockHash  []byte
	partsTotal int
	partsHash  []byte
	sigs       []sigEntry
}

// valEntry is one submitted validator (the Valsets field).
type valEntry struct {
	key      *simKey
	power    int64
	addr     []byte // nil = the key's own address
	priority int64
}

type builder interface {
	// setHash is the validator-set hash as a chain at this block version computes it.
	setHash(vals []valDef, version uint64) []byte
	// allHashes lists every hash flavour under which the light client may know the set.
	allHashes(vals []valDef) [][]byte
	// canonOrder is the order of the set inside commits at this block version.
	canonOrder(vals []valDef, version uint64) []valDef
	headerHash(h *hdrFields) []byte
	signBytes(version uint64, v *voteFields) []byte
	encode(h *hdrFields, c *commitFields, vals []valEntry) []byte
	keyKinds() []keyKind
}

func utc(nano int64) time.Time { return time.Unix(0, nano).UTC() }

func addrOf(e valEntry) []byte {
	if e.addr != nil {
		return e.addr
	}
	return e.key.pub.Address()
}

// ---------------------------------------------------------------------------------------
// tendermint v0.33.7 types (cosmos, okex); block version >= 11 uses the v0.34 hashing rules

type tmBuilder struct {
	okex bool
	cdc  *amino.Codec
}

func newCosmosBuilder() *tmBuilder { return &tmBuilder{cdc: hscosmos.Cdc} }
func newOkexBuilder() *tmBuilder   { return &tmBuilder{okex: true, cdc: hsokex.NewCDC()} }

func (b *tmBuilder) keyKinds() []keyKind {
	// NOTE: the okex codec also decodes ethermint eth_secp256k1 validator keys, but tendermint's
	// ValidatorSet.Hash() cannot encode them (the handler would panic), so okex sets use the
	// two standard key types as well.
	return []keyKind{kEd25519, kSecp256k1}
}

func (b *tmBuilder) stargate(version uint64) bool { return !b.okex && version >= 11 }

func tmValidators(vals []valDef) []*tmtypes.Validator {
	out := make([]*tmtypes.Validator, len(vals))
	for i, v := range vals {
		out[i] = tmtypes.NewValidator(v.key.pub, v.power)
	}
	return out
}

func tm34PubKey(k *simKey) tm34crypto.PubKey {
	switch pk := k.pub.(type) {
	case ed25519.PubKeyEd25519:
		return tm34ed.PubKey(pk[:])
	case secp256k1.PubKeySecp256k1:
		return tm34secp.PubKey(pk[:])
	}
	panic("lctm: key type has no v0.34 form")
}

func tm34ValSet(vals []valDef) *tm34types.ValidatorSet {
	out := make([]*tm34types.Validator, len(vals))
	for i, v := range vals {
		out[i] = tm34types.NewValidator(tm34PubKey(v.key), v.power)
	}
	return tm34types.NewValidatorSet(out)
}

func (b *tmBuilder) setHash(vals []valDef, ver uint64) []byte {
	if len(vals) == 0 {
		return nil
	}
	if b.stargate(ver) {
		return tm34ValSet(vals).Hash()
	}
	return tmtypes.NewValidatorSet(tmValidators(vals)).Hash()
}

func (b *tmBuilder) allHashes(vals []valDef) [][]byte {
	if len(vals) == 0 {
		return nil
	}
	out := [][]byte{b.setHash(vals, 10)}
	if !b.okex {
		out = append(out, b.setHash(vals, 11))
	}
	return out
}

func (b *tmBuilder) canonOrder(vals []valDef, ver uint64) []valDef {
	byID := map[string]valDef{}
	for _, v := range vals {
		byID[string(v.key.pub.Address())] = v
	}
	var out []valDef
	if b.stargate(ver) {
		for _, v := range tm34ValSet(vals).Validators {
			out = append(out, byID[string(v.Address)])
		}
		return out
	}
	for _, v := range tmtypes.NewValidatorSet(tmValidators(vals)).Validators {
		out = append(out, byID[string(v.Address)])
	}
	return out
}

func (b *tmBuilder) tmHeader(h *hdrFields) tmtypes.Header {
	return tmtypes.Header{
		Version: version.Consensus{Block: version.Protocol(h.version), App: 0},
		ChainID: h.chainID, Height: h.height, Time: utc(h.timeSec * 1e9),
		LastBlockID:        tmtypes.BlockID{Hash: h.lastHash, PartsHeader: tmtypes.PartSetHeader{Total: 1, Hash: sha(h.lastHash)}},
		LastCommitHash:     sha(append([]byte("lc"), h.lastHash...)),
		DataHash:           sha(append([]byte("data"), byte(h.height))),
		ValidatorsHash:     h.valsHash,
		NextValidatorsHash: h.nextHash,
		ConsensusHash:      sha([]byte("consensus-params")),
		AppHash:            h.appHash,
		LastResultsHash:    nil,
		EvidenceHash:       nil,
		ProposerAddress:    h.proposer,
	}
}

func sha(b []byte) []byte { s := sha256.Sum256(b); return s[:] }

func (b *tmBuilder) headerHash(h *hdrFields) []byte {
	th := b.tmHeader(h)
	if !b.stargate(h.version) {
		return th.Hash()
	}
	n := tm34types.Header{
		Version: tm34version.Consensus{Block: uint64(th.Version.Block), App: uint64(th.Version.App)},
		ChainID: th.ChainID, Height: th.Height, Time: th.Time,
		LastBlockID: tm34types.BlockID{Hash: tm34bytes.HexBytes(th.LastBlockID.Hash),
			PartSetHeader: tm34types.PartSetHeader{Total: uint32(th.LastBlockID.PartsHeader.Total), Hash: tm34bytes.HexBytes(th.LastBlockID.PartsHeader.Hash)}},
		LastCommitHash: tm34bytes.HexBytes(th.LastCommitHash), DataHash: tm34bytes.HexBytes(th.DataHash),
		ValidatorsHash: tm34bytes.HexBytes(th.ValidatorsHash), NextValidatorsHash: tm34bytes.HexBytes(th.NextValidatorsHash),
		ConsensusHash: tm34bytes.HexBytes(th.ConsensusHash), AppHash: tm34bytes.HexBytes(th.AppHash),
		LastResultsHash: tm34bytes.HexBytes(th.LastResultsHash), EvidenceHash: tm34bytes.HexBytes(th.EvidenceHash),
		ProposerAddress: tm34bytes.HexBytes(th.ProposerAddress),
	}
	return n.Hash()
}

func (b *tmBuilder) signBytes(ver uint64, v *voteFields) []byte {
	if b.stargate(ver) {
		pv := &tm34proto.Vote{Type: tm34proto.PrecommitType, Height: v.height, Round: int32(v.round), Timestamp: utc(v.tsNano)}
		if v.blockHash != nil {
			pv.BlockID = tm34proto.BlockID{Hash: v.blockHash, PartSetHeader: tm34proto.PartSetHeader{Total: uint32(v.partsTotal), Hash: v.partsHash}}
		}
		return tm34types.VoteSignBytes(v.chainID, pv)
	}
	vote := &tmtypes.Vote{Type: tmtypes.PrecommitType, Height: v.height, Round: v.round, Timestamp: utc(v.tsNano)}
	if v.blockHash != nil {
		vote.BlockID = tmtypes.BlockID{Hash: v.blockHash, PartsHeader: tmtypes.PartSetHeader{Total: v.partsTotal, Hash: v.partsHash}}
	}
	return vote.SignBytes(v.chainID)
}

// wire mirror of the CosmosHeader parameter struct (identical in the cosmos and okex packages)
type tmWireHeader struct {
	Header  tmtypes.Header
	Commit  *tmtypes.Commit
	Valsets []*tmtypes.Validator
}

func (b *tmBuilder) encode(h *hdrFields, c *commitFields, vals []valEntry) []byte {
	w := tmWireHeader{Header: b.tmHeader(h)}
	sigs := make([]tmtypes.CommitSig, len(c.sigs))
	for i, s := range c.sigs {
		switch s.flag {
		case flagAbsent:
			sigs[i] = tmtypes.NewCommitSigAbsent()
		default:
			sigs[i] = tmtypes.CommitSig{BlockIDFlag: tmtypes.BlockIDFlag(map[int]byte{flagCommit: 2, flagNil: 3}[s.flag]), ValidatorAddress: s.addr, Timestamp: utc(s.tsNano), Signature: s.sig}
		}
	}
	w.Commit = tmtypes.NewCommit(c.height, c.round, tmtypes.BlockID{Hash: c.blockHash, PartsHeader: tmtypes.PartSetHeader{Total: c.partsTotal, Hash: c.partsHash}}, sigs)
	for _, e := range vals {
		w.Valsets = append(w.Valsets, &tmtypes.Validator{Address: addrOf(e), PubKey: e.key.pub, VotingPower: e.power, ProposerPriority: e.priority})
	}
	bz, err := b.cdc.MarshalBinaryBare(w)
	if err != nil {
		panic(fmt.Sprintf("lctm: encode header: %v", err))
	}
	return bz
}

// ---------------------------------------------------------------------------------------
// Heimdall (peppermint) types

type heimdallBuilder struct{ cdc *amino.Codec }

func newHeimdallBuilder() *heimdallBuilder { return &heimdallBuilder{cdc: ptypes.NewCDC()} }

func (b *heimdallBuilder) keyKinds() []keyKind { return []keyKind{kPeppermint} }

func hmValidators(vals []valDef) []*ptypes.Validator {
	out := make([]*ptypes.Validator, len(vals))
	for i, v := range vals {
		out[i] = ptypes.NewValidator(v.key.pub, v.power)
	}
	return out
}

func (b *heimdallBuilder) setHash(vals []valDef, ver uint64) []byte {
	if len(vals) == 0 {
		return nil
	}
	return ptypes.NewValidatorSet(hmValidators(vals)).Hash()
}
func (b *heimdallBuilder) allHashes(vals []valDef) [][]byte {
	if len(vals) == 0 {
		return nil
	}
	return [][]byte{b.setHash(vals, 0)}
}

func (b *heimdallBuilder) canonOrder(vals []valDef, ver uint64) []valDef {
	out := append([]valDef{}, vals...)
	sort.Slice(out, func(i, j int) bool { return bytes.Compare(out[i].key.pub.Address(), out[j].key.pub.Address()) < 0 })
	return out
}

func (b *heimdallBuilder) hmHeader(h *hdrFields) ptypes.Header {
	return ptypes.Header{
		Version: version.Consensus{Block: version.Protocol(h.version), App: 0},
		ChainID: h.chainID, Height: h.height, Time: utc(h.timeSec * 1e9), NumTxs: 1, TotalTxs: h.height,
		LastBlockID:        ptypes.BlockID{Hash: h.lastHash, PartsHeader: ptypes.PartSetHeader{Total: 1, Hash: sha(h.lastHash)}},
		LastCommitHash:     sha(append([]byte("lc"), h.lastHash...)),
		DataHash:           sha(append([]byte("data"), byte(h.height))),
		ValidatorsHash:     h.valsHash,
		NextValidatorsHash: h.nextHash,
		ConsensusHash:      sha([]byte("consensus-params")),
		AppHash:            h.appHash,
		ProposerAddress:    h.proposer,
	}
}

func (b *heimdallBuilder) headerHash(h *hdrFields) []byte {
	hh := b.hmHeader(h)
	return hh.Hash()
}

func (b *heimdallBuilder) signBytes(ver uint64, v *voteFields) []byte {
	vote := &ptypes.Vote{Type: ptypes.PrecommitType, Height: v.height, Round: v.round, Timestamp: utc(v.tsNano)}
	if v.blockHash != nil {
		vote.BlockID = ptypes.BlockID{Hash: v.blockHash, PartsHeader: ptypes.PartSetHeader{Total: v.partsTotal, Hash: v.partsHash}}
	}
	return vote.SignBytes(v.chainID)
}

func (b *heimdallBuilder) encode(h *hdrFields, c *commitFields, vals []valEntry) []byte {
	w := hspolygon.CosmosHeader{Header: b.hmHeader(h)}
	cm := &ptypes.Commit{BlockID: ptypes.BlockID{Hash: c.blockHash, PartsHeader: ptypes.PartSetHeader{Total: c.partsTotal, Hash: c.partsHash}}}
	for _, s := range c.sigs {
		if s.flag == flagAbsent {
			cm.Precommits = append(cm.Precommits, nil)
			continue
		}
		cs := &ptypes.CommitSig{Type: ptypes.PrecommitType, Height: c.height, Round: c.round, Timestamp: utc(s.tsNano),
			ValidatorAddress: s.addr, ValidatorIndex: s.valIndex, Signature: s.sig}
		if s.flag == flagCommit {
			cs.BlockID = cm.BlockID
		}
		cm.Precommits = append(cm.Precommits, cs)
	}
	w.Commit = cm
	for _, e := range vals {
		w.Valsets = append(w.Valsets, &ptypes.Validator{Address: addrOf(e), PubKey: e.key.pub, VotingPower: e.power, ProposerPriority: e.priority})
	}
	bz, err := b.cdc.MarshalBinaryBare(w)
	if err != nil {
		panic(fmt.Sprintf("lctm: encode heimdall header: %v", err))
	}
	return bz
}

var _ = pcmn.HexBytes(nil)
