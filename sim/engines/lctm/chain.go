package lctm

// The simulated Tendermint chain (validator-set history, headers, commits, app state) and
// the registry the reference model consults: for every artefact ever built, *by construction*
// which validators validly signed which header.

import (
	"bytes"
	"encoding/binary"
	"encoding/hex"
	"fmt"
	"sort"

	ethcrypto "github.com/ethereum/go-ethereum/crypto"
	"github.com/polynetwork/poly/common"
	ccom "github.com/polynetwork/poly/native/service/cross_chain_manager/common"
	"github.com/polynetwork/poly/native/service/utils"

	"polysim/kernel"
)

// famSpec describes one covered router flavour.
type famSpec struct {
	name       string // flavour name used in probes / evidence
	driver     string // lc driver name
	router     uint64
	mk         func() builder
	hasDeposit bool
	ics23      bool
	okexKeys   bool
	store      string
	// version of the block at height h (relative to the chain)
	version func(c *simChain, h int64) uint64
}

var families = []*famSpec{
	{name: "cosmos-legacy", driver: "cosmos", router: utils.COSMOS_ROUTER, mk: func() builder { return newCosmosBuilder() }, hasDeposit: true, store: "ccm",
		version: func(c *simChain, h int64) uint64 { return 10 }},
	{name: "cosmos-stargate", driver: "cosmos", router: utils.COSMOS_ROUTER, mk: func() builder { return newCosmosBuilder() }, hasDeposit: true, ics23: true, store: "ccm",
		version: func(c *simChain, h int64) uint64 { return 11 }},
	{name: "cosmos-upgrade", driver: "cosmos", router: utils.COSMOS_ROUTER, mk: func() builder { return newCosmosBuilder() }, hasDeposit: true, store: "ccm",
		version: func(c *simChain, h int64) uint64 {
			if h >= c.upgradeAt {
				return 11
			}
			return 10
		}},
	{name: "okex", driver: "okex", router: utils.OKEX_ROUTER, mk: func() builder { return newOkexBuilder() }, hasDeposit: true, okexKeys: true, store: "evm",
		version: func(c *simChain, h int64) uint64 { return 10 }},
	{name: "heimdall", driver: "heimdall", router: utils.POLYGON_HEIMDALL_ROUTER, mk: func() builder { return newHeimdallBuilder() }, store: "bor",
		version: func(c *simChain, h int64) uint64 { return 10 }},
}

func famByName(n string) *famSpec {
	for _, f := range families {
		if f.name == n {
			return f
		}
	}
	return nil
}

// simMsg is one cross-chain message committed on the simulated chain.
type simMsg struct {
	idx      int
	commitH  int64 // first height whose AppHash commits the message
	param    *ccom.MakeTxParam
	raw      []byte // MakeTxParam serialization = the "message"
	key      []byte // store key
	stored   []byte // store value (raw for cosmos, keccak256(raw) for okex)
	accepted bool
}

type simChain struct {
	fam        *famSpec
	b          builder
	seed       uint64
	polyID     uint64 // side-chain id on poly
	dstID      uint64 // destination chain of the messages
	chainID    string
	sw         []int64    // sw[0] = trust-root height; header at sw[j]: vals=sets[j], next=sets[j+1]
	sets       [][]valDef // len(sw)+1
	maxH       int64
	upgradeAt  int64
	outsiders  []*simKey
	ccmc       []byte
	app        appState
	msgs       []*simMsg
	setsByHash map[string][]valDef
	cache      map[int64]*artefact // honest fully signed artefacts by height
}

func abs64(v int64) int64 {
	if v < 0 {
		if v == -v {
			return 0
		}
		return -v
	}
	return v
}

// newSimChain derives the whole chain from (seed, small integers); it draws no other randomness.
func newSimChain(fam *famSpec, seed uint64, polyID, dstID uint64, nSwitch, nMsg int, recur bool) *simChain {
	c := &simChain{fam: fam, b: fam.mk(), seed: seed, polyID: polyID, dstID: dstID, setsByHash: map[string][]valDef{}, cache: map[int64]*artefact{}}
	rng := kernel.NewRNG(kernel.Derive(seed, "lctm-chain", polyID))
	c.chainID = fmt.Sprintf("sim-%s-%d", fam.driver, rng.Intn(900)+100)
	if nSwitch < 1 {
		nSwitch = 1
	}
	if nSwitch > 5 {
		nSwitch = 5
	}
	h := int64(1 + rng.Intn(2000))
	c.sw = []int64{h}
	for j := 0; j < nSwitch; j++ {
		h += int64(2 + rng.Intn(4))
		c.sw = append(c.sw, h)
	}
	c.maxH = h + 4
	c.upgradeAt = c.sw[0] + 1 + int64(rng.Intn(int(c.maxH-c.sw[0])))
	for i := 0; i < 4; i++ {
		c.outsiders = append(c.outsiders, newKey(c.b.keyKinds()[i%len(c.b.keyKinds())], seed, "outsider", i))
	}
	keyNo := 0
	fresh := func() *simKey {
		kinds := c.b.keyKinds()
		k := newKey(kinds[rng.Intn(len(kinds))], seed, "val", keyNo)
		keyNo++
		return k
	}
	// validator sets
	for j := 0; j <= len(c.sw); j++ {
		var set []valDef
		switch {
		case j == 0 || rng.Chance(0.25):
			set = genSet(rng, fresh)
		case recur && j >= 2 && rng.Chance(0.6):
			set = append([]valDef{}, c.sets[j-2]...)
		default:
			set = mutateSet(rng, c.sets[j-1], fresh)
		}
		if j > 0 && sameSet(set, c.sets[j-1]) {
			set = append([]valDef{}, set...)
			set[0].power++
		}
		c.sets = append(c.sets, set)
		c.registerSet(set)
	}
	// application state and messages
	c.ccmc = kernel.NewRNG(kernel.Derive(seed, "ccmc", polyID)).Bytes(20)
	stores := []string{fam.store, "acc", "bank"}
	if fam.ics23 {
		c.app = newICS23State(stores)
	} else {
		c.app = newLegacyState(stores)
	}
	noise := []kvWrite{{"acc", []byte("acct-1"), rng.Bytes(12)}, {"bank", []byte("supply"), rng.Bytes(8)}, {fam.store, c.msgKey(rng.Bytes(32)), rng.Bytes(40)}, {fam.store, c.msgKey(rng.Bytes(32)), rng.Bytes(33)}}
	c.app.commit(noise)
	if !fam.hasDeposit {
		nMsg = 0
	}
	if nMsg > 6 {
		nMsg = 6
	}
	span := int(c.maxH - c.sw[0])
	hs := map[int64]bool{}
	for i := 0; i < nMsg; i++ {
		ch := c.sw[0] + 1 + int64(rng.Intn(span))
		for hs[ch] {
			ch++
		}
		hs[ch] = true
		if ch > c.maxH {
			c.maxH = ch
		}
		c.msgs = append(c.msgs, &simMsg{commitH: ch})
	}
	sort.Slice(c.msgs, func(i, j int) bool { return c.msgs[i].commitH < c.msgs[j].commitH })
	for i, m := range c.msgs {
		m.idx = i
		ccid := rng.Bytes(32)
		m.param = &ccom.MakeTxParam{TxHash: rng.Bytes(32), CrossChainID: ccid, FromContractAddress: c.ccmc, ToChainID: dstID,
			ToContractAddress: rng.Bytes(20), Method: "unlock", Args: rng.Bytes(20 + rng.Intn(40))}
		m.raw = serParam(m.param)
		m.key = c.msgKey(ccid)
		m.stored = c.storedValue(m.raw)
		c.app.commit([]kvWrite{{fam.store, m.key, m.stored}, {"bank", []byte("supply"), rng.Bytes(8)}})
	}
	return c
}

func serParam(p *ccom.MakeTxParam) []byte {
	sink := common.NewZeroCopySink(nil)
	p.Serialization(sink)
	return sink.Bytes()
}

// msgKey is the store key under which a message with the given cross-chain id is committed.
func (c *simChain) msgKey(ccid []byte) []byte {
	if c.fam.okexKeys { // 0x05 || CCMC contract address || storage slot hash
		return append(append([]byte{0x05}, c.ccmc...), ethcrypto.Keccak256(ccid)...)
	}
	return append([]byte{0x01}, ccid...)
}

func (c *simChain) storedValue(raw []byte) []byte {
	if c.fam.okexKeys {
		return ethcrypto.Keccak256(raw)
	}
	return raw
}

func genSet(rng *kernel.RNG, fresh func() *simKey) []valDef {
	n := 1 + rng.Intn(7)
	set := make([]valDef, n)
	mode := rng.Intn(5)
	for i := range set {
		set[i].key = fresh()
		switch mode {
		case 0: // equal powers
			set[i].power = 10
		case 1: // small distinct
			set[i].power = int64(1 + rng.Intn(9))
		case 2: // one whale
			set[i].power = int64(1 + rng.Intn(5))
			if i == 0 {
				set[i].power = int64(20 + rng.Intn(100))
			}
		case 3: // large
			set[i].power = int64(1+rng.Intn(1<<20)) << uint(rng.Intn(20))
		default: // filled in below
			set[i].power = int64(1 + rng.Intn(30))
		}
	}
	if mode == 4 && n >= 2 {
		makeExactable(rng, set)
	}
	return set
}

// makeExactable adjusts the powers so that some subset holds exactly two thirds of the total.
func makeExactable(rng *kernel.RNG, set []valDef) {
	n := len(set)
	k := 1 + rng.Intn(n-1) // the first k are "the signers"
	var s int64
	for i := 0; i < k; i++ {
		s += set[i].power
	}
	if s%2 == 1 {
		set[0].power++
		s++
	}
	rest := s / 2 // the others must sum to s/2 so that s = 2/3 (s + s/2)
	m := n - k
	if rest < int64(m) {
		// scale the signers up so that everybody else can hold at least 1
		f := int64(2 * m)
		for i := 0; i < k; i++ {
			set[i].power *= f
		}
		s *= f
		rest = s / 2
	}
	for i := k; i < n; i++ {
		left := int64(n - 1 - i)
		if left == 0 {
			set[i].power = rest
			break
		}
		p := int64(1)
		if rest-left > 1 {
			p = 1 + int64(rng.Intn(int((rest-left)%1000000)))
			if p > rest-left {
				p = rest - left
			}
		}
		set[i].power = p
		rest -= p
	}
}

func mutateSet(rng *kernel.RNG, prev []valDef, fresh func() *simKey) []valDef {
	set := append([]valDef{}, prev...)
	switch rng.Intn(4) {
	case 0: // re-power one
		i := rng.Intn(len(set))
		set[i].power = set[i].power + int64(1+rng.Intn(10))
	case 1: // join
		if len(set) < 7 {
			set = append(set, valDef{fresh(), int64(1 + rng.Intn(20))})
		} else {
			set[0].power += 3
		}
	case 2: // leave
		if len(set) > 1 {
			i := rng.Intn(len(set))
			set = append(set[:i], set[i+1:]...)
		} else {
			set = append(set, valDef{fresh(), int64(1 + rng.Intn(20))})
		}
	default: // replace one
		i := rng.Intn(len(set))
		set[i] = valDef{fresh(), set[i].power}
	}
	return set
}

func sameSet(a, b []valDef) bool {
	if len(a) != len(b) {
		return false
	}
	f := func(s []valDef) []string {
		out := make([]string, len(s))
		for i, v := range s {
			out[i] = fmt.Sprintf("%s/%d", v.key.id, v.power)
		}
		sort.Strings(out)
		return out
	}
	x, y := f(a), f(b)
	for i := range x {
		if x[i] != y[i] {
			return false
		}
	}
	return true
}

func (c *simChain) registerSet(set []valDef) {
	for _, h := range c.b.allHashes(set) {
		if _, ok := c.setsByHash[hex.EncodeToString(h)]; !ok {
			c.setsByHash[hex.EncodeToString(h)] = set
		}
	}
}

func (c *simChain) version(h int64) uint64 { return c.fam.version(c, h) }

// setAt is the validator set of the block at height h; nextAt that of h+1.
func (c *simChain) setAt(h int64) []valDef {
	j := 0
	for j < len(c.sw) && c.sw[j] < h {
		j++
	}
	return c.sets[j]
}
func (c *simChain) nextAt(h int64) []valDef { return c.setAt(h + 1) }

func (c *simChain) isSwitch(h int64) bool {
	for _, s := range c.sw {
		if s == h {
			return true
		}
	}
	return false
}

// nextSwitchAfter returns the first switch height > h (0 if none).
func (c *simChain) nextSwitchAfter(h int64) int64 {
	for _, s := range c.sw {
		if s > h {
			return s
		}
	}
	return 0
}

// extend appends one more validator-set change after the current last one (a pure function of
// the seed and of how many changes exist). ok=false once the chain has 9 switch heights.
func (c *simChain) extend() bool {
	if len(c.sw) >= 9 {
		return false
	}
	rng := kernel.NewRNG(kernel.Derive(c.seed, "lctm-extend", uint64(len(c.sw))))
	last := c.sw[len(c.sw)-1]
	c.sw = append(c.sw, last+2+int64(rng.Intn(4)))
	n := 0
	fresh := func() *simKey {
		kinds := c.b.keyKinds()
		n++
		return newKey(kinds[rng.Intn(len(kinds))], c.seed, fmt.Sprintf("ext%d", len(c.sw)), n)
	}
	prev := c.sets[len(c.sets)-1]
	next := mutateSet(rng, prev, fresh)
	if sameSet(next, prev) {
		next = append([]valDef{}, next...)
		next[0].power++
	}
	c.sets = append(c.sets, next)
	c.registerSet(next)
	if c.maxH < c.sw[len(c.sw)-1]+4 {
		c.maxH = c.sw[len(c.sw)-1] + 4
	}
	for h := range c.cache { // canonical headers above the old last switch change
		if h > last {
			delete(c.cache, h)
		}
	}
	return true
}

// nextSwitchExt is nextSwitchAfter that grows the chain when it is exhausted.
func (c *simChain) nextSwitchExt(h int64) int64 {
	if n := c.nextSwitchAfter(h); n != 0 {
		return n
	}
	if h >= c.sw[len(c.sw)-1] && c.extend() {
		return c.nextSwitchAfter(h)
	}
	return 0
}

// stateVer is the app-state version committed by the header at height h.
func (c *simChain) stateVer(h int64) int {
	v := 0
	for _, m := range c.msgs {
		if m.commitH <= h {
			v = m.idx + 1
		}
	}
	return v
}

func (c *simChain) timeAt(h int64) int64 { return 946684800 + h*6 }

func (c *simChain) pseudoHash(label string, h int64) []byte {
	b := make([]byte, 16+len(label))
	binary.BigEndian.PutUint64(b, c.seed)
	binary.BigEndian.PutUint64(b[8:], uint64(h))
	copy(b[16:], label)
	return sha(b)
}

// honestFields are the header fields of the canonical block at height h.
func (c *simChain) honestFields(h int64) *hdrFields {
	ver := c.version(h)
	vals := c.setAt(h)
	f := &hdrFields{version: ver, chainID: c.chainID, height: h, timeSec: c.timeAt(h), lastHash: c.pseudoHash("block", h-1),
		valsHash: c.b.setHash(vals, ver), nextHash: c.b.setHash(c.nextAt(h), ver), appHash: c.app.appHash(c.stateVer(h))}
	f.proposer = c.b.canonOrder(vals, ver)[0].key.pub.Address()
	return f
}

// ---------------------------------------------------------------------------------------
// artefacts

type voteMode int

const (
	vAbsent voteMode = iota
	vHonest
	vNil         // validly signed precommit for nil
	vOutsider    // signed by a key outside the set
	vOtherBlock  // validator signed another block id
	vOtherHeight // validator signed another height
	vOtherChain  // validator signed for another chain id
	vOtherRound  // validator signed in another round
	vBadTime     // timestamp changed after signing
	vBitflip     // signature corrupted
	vCopy        // the entry is a copy of another validator's entry
)

type voteSpec struct {
	mode   voteMode
	copyOf int // position copied (vCopy)
}

// artefact is one submission-ready header with everything the reference model needs.
type artefact struct {
	bytes   []byte
	hash    []byte
	f       hdrFields
	vals    []valDef        // validator set as submitted (identity only)
	support map[string]bool // key ids having a valid precommit for exactly this header in the commit
	appVer  int             // state version committed by f.appHash (-1: none of ours)
	desc    string
	honest  bool // canonical header, true set in canonical order, every vote honest or absent
}

type artefactSpec struct {
	f           *hdrFields
	order       []valDef   // validators in commit order (position p <-> order[p])
	submit      []valEntry // Valsets as submitted; nil = order, with own addresses
	votes       []voteSpec // per position; may be longer/shorter than order (size faults)
	round       int
	commitH     int64  // 0 = f.height
	commitTo    []byte // nil = hash of f (the block the commit names)
	signTo      []byte // nil = commitTo (the block the honest votes were cast for)
	heimdallDup bool   // vCopy entries carry the copied validator's index (heimdall ValidatorIndex)
	canonical   bool   // f is the canonical block's header and order is the canonical order of its true set
	appVer      int
	desc        string
}

func (c *simChain) build(sp *artefactSpec) *artefact {
	f := *sp.f
	hash := c.b.headerHash(&f)
	a := &artefact{hash: hash, f: f, support: map[string]bool{}, appVer: sp.appVer, desc: sp.desc}
	cf := &commitFields{height: f.height, round: sp.round, blockHash: hash, partsTotal: 1}
	if sp.commitH != 0 {
		cf.height = sp.commitH
	}
	if sp.commitTo != nil {
		cf.blockHash = sp.commitTo
	}
	cf.partsHash = sha(append([]byte("parts"), cf.blockHash...))
	castFor := cf.blockHash
	if sp.signTo != nil {
		castFor = sp.signTo
	}
	names := cf.height == f.height && bytes.Equal(cf.blockHash, hash) // the commit is about this header
	allHonest := true
	for p, vs := range sp.votes {
		var v *valDef
		if p < len(sp.order) {
			v = &sp.order[p]
		}
		ts := (c.timeAt(f.height)+1)*1e9 + int64(p)*1000
		claimed := voteFields{chainID: f.chainID, height: cf.height, round: cf.round, blockHash: cf.blockHash, partsTotal: cf.partsTotal, partsHash: cf.partsHash, tsNano: ts}
		signed := claimed
		signed.blockHash = castFor
		if !bytes.Equal(castFor, cf.blockHash) {
			signed.partsHash = sha(append([]byte("parts"), castFor...))
		}
		e := sigEntry{flag: flagCommit, tsNano: ts, valIndex: p}
		var signer *simKey
		if v != nil {
			signer = v.key
			e.addr = v.key.pub.Address()
		} else {
			signer = c.outsiders[p%len(c.outsiders)]
			e.addr = signer.pub.Address()
		}
		switch vs.mode {
		case vAbsent:
			cf.sigs = append(cf.sigs, sigEntry{flag: flagAbsent})
			continue
		case vHonest:
		case vNil:
			e.flag = flagNil
			signed.blockHash, signed.partsHash, signed.partsTotal = nil, nil, 0
			claimed = signed
		case vOutsider:
			signer = c.outsiders[p%len(c.outsiders)]
		case vOtherBlock:
			signed.blockHash = c.pseudoHash("fork", f.height)
		case vOtherHeight:
			signed.height = cf.height + 1
		case vOtherChain:
			signed.chainID = f.chainID + "-other"
		case vOtherRound:
			signed.round = cf.round + 1
		case vBadTime:
			signed.tsNano = ts + 7
		case vCopy: // filled in below, once every real entry exists
			cf.sigs = append(cf.sigs, sigEntry{flag: flagAbsent})
			allHonest = false
			continue
		}
		e.sig = signer.sign(c.b.signBytes(f.version, &signed))
		if vs.mode == vBitflip {
			e.sig = append([]byte{}, e.sig...)
			e.sig[len(e.sig)/2] ^= 0x10
		}
		if vs.mode != vHonest {
			allHonest = false
		}
		// by construction: the entry is a valid precommit of validator v for this header iff
		// v's own key signed exactly what the entry claims, the claim is a precommit for the
		// block the commit names, and the commit names this header
		if v != nil && signer == v.key && vs.mode != vBitflip && e.flag == flagCommit && signed.equal(claimed) && names {
			a.support[v.key.id] = true
		}
		cf.sigs = append(cf.sigs, e)
	}
	for p, vs := range sp.votes {
		if vs.mode != vCopy {
			continue
		}
		q := int(abs64(int64(vs.copyOf)) % int64(len(sp.votes)))
		if q != p && sp.votes[q].mode != vCopy && cf.sigs[q].flag != flagAbsent {
			cp := cf.sigs[q]
			if !sp.heimdallDup {
				cp.valIndex = p
			}
			cf.sigs[p] = cp
		}
	}
	submit := sp.submit
	if submit == nil {
		for _, v := range sp.order {
			submit = append(submit, valEntry{key: v.key, power: v.power})
		}
	}
	for _, e := range submit {
		a.vals = append(a.vals, valDef{e.key, e.power})
	}
	c.registerSet(a.vals)
	a.bytes = c.b.encode(&f, cf, submit)
	a.honest = allHonest && names && sp.submit == nil && sp.canonical
	return a
}

// tally is the reference computation of the property's quorum: the voting power, within the
// submitted set, of the distinct validators that validly signed this header, and the total.
func (a *artefact) tally() (signed, total int64) {
	seen := map[string]bool{}
	for _, v := range a.vals {
		total += v.power
		if a.support[v.key.id] && !seen[v.key.id] {
			seen[v.key.id] = true
			signed += v.power
		}
	}
	return
}

// subsets enumerates all signer subsets of order and returns the one asked for:
// want 0: the cheapest subset with power > 2/3; 1: a subset with power == 2/3 exactly (ok=false
// if none); 2: the heaviest subset with power < 2/3 (ok=false if only the empty set).
func pickSubset(order []valDef, want int, sel int64) (mask uint, ok bool) {
	var total int64
	for _, v := range order {
		total += v.power
	}
	n := len(order)
	best := int64(-1)
	var cands []uint
	for m := uint(0); m < 1<<uint(n); m++ {
		var s int64
		for i := 0; i < n; i++ {
			if m>>uint(i)&1 == 1 {
				s += order[i].power
			}
		}
		switch want {
		case 0:
			if s*3 > total*2 && (best < 0 || s <= best) {
				if s < best || best < 0 {
					cands = cands[:0]
				}
				best = s
				cands = append(cands, m)
			}
		case 1:
			if s*3 == total*2 {
				cands = append(cands, m)
			}
		case 2:
			if s*3 < total*2 && m != 0 && s >= best {
				if s > best {
					cands = cands[:0]
				}
				best = s
				cands = append(cands, m)
			}
		}
	}
	if len(cands) == 0 {
		return 0, false
	}
	return cands[int(abs64(sel)%int64(len(cands)))], true
}

func votesFromMask(n int, mask uint) []voteSpec {
	vs := make([]voteSpec, n)
	for i := range vs {
		if mask>>uint(i)&1 == 1 {
			vs[i].mode = vHonest
		}
	}
	return vs
}

// honest returns the canonical, fully signed artefact for height h.
func (c *simChain) honest(h int64) *artefact {
	if a, ok := c.cache[h]; ok {
		return a
	}
	f := c.honestFields(h)
	order := c.b.canonOrder(c.setAt(h), f.version)
	a := c.build(&artefactSpec{f: f, order: order, votes: votesFromMask(len(order), 1<<uint(len(order))-1), canonical: true, appVer: c.stateVer(h), desc: fmt.Sprintf("honest h=%d", h)})
	c.cache[h] = a
	return a
}
