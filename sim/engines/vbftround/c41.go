package vbftround

import (
	"crypto/sha256"
	"encoding/json"
	"fmt"
	"sort"
	"strings"
	"time"

	"github.com/ontio/ontology-crypto/keypair"
	"github.com/ontio/ontology-crypto/vrf"
	"github.com/polynetwork/poly/account"
	"github.com/polynetwork/poly/common"
	"github.com/polynetwork/poly/consensus/vbft"
	vconfig "github.com/polynetwork/poly/consensus/vbft/config"
	"github.com/polynetwork/poly/core/ledger"
	"github.com/polynetwork/poly/core/signature"
	"github.com/polynetwork/poly/core/store/ledgerstore"
	"github.com/polynetwork/poly/core/types"
	mt "github.com/polynetwork/poly/p2pserver/message/types"

	"polysim/chain"
	"polysim/kernel"
)

// ---------------------------------------------------------------------------------------
// C41: round decisions count distinct participants.
// ---------------------------------------------------------------------------------------

// wire mirrors of the two JSON message kinds (field names as in consensus/vbft/msg_types.go),
// used to read decoded messages for the model and to craft Byzantine variants.
type wEndorse struct {
	Endorser          uint32        `json:"endorser"`
	EndorsedProposer  uint32        `json:"endorsed_proposer"`
	BlockNum          uint32        `json:"block_num"`
	EndorsedBlockHash [32]byte      `json:"endorsed_block_hash"`
	EndorseForEmpty   bool          `json:"endorse_for_empty"`
	FaultyProposals   []interface{} `json:"faulty_proposals"`
	ProposerSig       []byte        `json:"proposer_sig"`
	EndorserSig       []byte        `json:"endorser_sig"`
}

type wCommit struct {
	Committer       uint32            `json:"committer"`
	BlockProposer   uint32            `json:"block_proposer"`
	BlockNum        uint32            `json:"block_num"`
	CommitBlockHash [32]byte          `json:"commit_block_hash"`
	CommitForEmpty  bool              `json:"commit_for_empty"`
	FaultyVerifies  []interface{}     `json:"faulty_verifies"`
	ProposerSig     []byte            `json:"proposer_sig"`
	EndorsersSig    map[uint32][]byte `json:"endorsers_sig"`
	CommitterSig    []byte            `json:"committer_sig"`
}

const (
	kProposal = 0
	kEndorse  = 1
	kCommit   = 2
)

type part struct {
	pos      int
	idx      uint32
	acct     *account.Account
	node     *chain.Node
	vn       *vbft.VerifNode
	byz      bool
	proposed bool
	sealed   *types.Block // block sealed in the current round
	held     map[uint32][]heldMsg
	dead     bool // sealed a block with an invalid signature: takes no further part
}

type wmsg struct {
	id     int
	kind   int
	blk    uint32
	sender int // position of the true sender (-1: outsider)
	frame  []byte
	desc   string
	bcast  bool
	fault  string
	// set for proposals created in this run
	proposer uint32
	// decoded facts, cached at first reception
	votes   []vote
	decoded bool
	undecod string
	deliv   []int // deliveries per node
}

type c41 struct {
	run        *kernel.Run
	w          *chain.World
	parts      []*part
	byIdx      map[uint32]*part
	N, C       uint32
	cfg        *vconfig.ChainConfig
	blk        uint32
	msgs       []*wmsg
	roundFirst int
	models     []map[uint32]*roundModel
	nbyz       int
	txNonce    uint32
	sealedCnt  int
	rounds     int
	failedKeys map[string]bool
	anyDead    bool
	diverged   bool // two nodes sealed different blocks (asserted only with at most C Byzantine)
	outsider   *account.Account
	stop       bool
}

func (c *c41) model(node int, blk uint32) *roundModel {
	m := c.models[node][blk]
	if m == nil {
		m = &roundModel{}
		c.models[node][blk] = m
	}
	return m
}

// fail records a violation once per key and run. Quorum-level violations do not end the run
// (later oracles - sealing, agreement - are what they lead to); the others do.
func (c *c41) fail(key, format string, a ...interface{}) {
	fatal := !(key == "sealed-invalid-signature" || key == "sealed-signature-not-for-sealed-block" || key == "commit-done-empty-miscount" || strings.HasPrefix(key, "quorum-") || strings.Contains(key, "-below-quorum") || strings.Contains(key, "depends-on-map-order") || key == "pools-sealed-different-blocks")
	if fatal {
		c.stop = true
	}
	if c.failedKeys[key] {
		return
	}
	c.failedKeys[key] = true
	c.run.Fail("C41", key, format, a...)
}

// ---- message table -------------------------------------------------------------------

// frame wraps a consensus message as Server.sendToPeer/broadcastToAll do: ConsensusPayload
// {Data, Owner} signed by the sender, in its wire form.
func frameOf(sender *account.Account, msg vbft.ConsensusMsg) ([]byte, error) {
	data, err := vbft.SerializeVbftMsg(msg)
	if err != nil {
		return nil, err
	}
	return frameRaw(sender, data)
}

func frameRaw(sender *account.Account, data []byte) ([]byte, error) {
	pl := &mt.ConsensusPayload{Data: data, Owner: sender.PublicKey}
	sink := common.NewZeroCopySink(nil)
	// SerializeUnsigned and serializationUnsigned write the same bytes; use the io.Writer form
	// the Server uses.
	buf := &strings.Builder{}
	if err := pl.SerializeUnsigned(buf); err != nil {
		return nil, err
	}
	sig, err := signature.Sign(sender, []byte(buf.String()))
	if err != nil {
		return nil, err
	}
	pl.Signature = sig
	if err := pl.Serialization(sink); err != nil {
		return nil, err
	}
	return sink.Bytes(), nil
}

func (c *c41) addMsg(kind int, blk uint32, sender int, frame []byte, desc string, bcast bool) *wmsg {
	m := &wmsg{id: len(c.msgs), kind: kind, blk: blk, sender: sender, frame: frame, desc: desc, bcast: bcast, deliv: make([]int, len(c.parts))}
	c.msgs = append(c.msgs, m)
	return m
}

// roundMsgs: messages created in the current round.
func (c *c41) roundMsgs() []*wmsg { return c.msgs[c.roundFirst:] }

func (c *c41) roundProposals() []*wmsg {
	var out []*wmsg
	for _, m := range c.roundMsgs() {
		if m.kind == kProposal {
			out = append(out, m)
		}
	}
	return out
}

// decodeMsg decodes the frame of a table message without any receiver context (used by
// Byzantine senders, who may read everything on the wire).
func decodeFrame(frame []byte) (*mt.ConsensusPayload, vbft.ConsensusMsg, error) {
	pl := &mt.ConsensusPayload{}
	if err := pl.Deserialization(common.NewZeroCopySource(frame)); err != nil {
		return nil, nil, fmt.Errorf("payload: %v", err)
	}
	msg, err := vbft.DeserializeVbftMsg(pl.Data)
	if err != nil {
		return pl, nil, err
	}
	return pl, msg, nil
}

func readJSON(msg vbft.ConsensusMsg, into interface{}) error {
	b, err := msg.Serialize()
	if err != nil {
		return err
	}
	return json.Unmarshal(b, into)
}

// remake turns a mirror struct back into a real message through the real decoder.
func remake(t vbft.MsgType, v interface{}) (vbft.ConsensusMsg, []byte, error) {
	payload, err := json.Marshal(v)
	if err != nil {
		return nil, nil, err
	}
	env, err := json.Marshal(&vbft.ConsensusMsgPayload{Type: t, Len: uint32(len(payload)), Payload: payload})
	if err != nil {
		return nil, nil, err
	}
	msg, err := vbft.DeserializeVbftMsg(env)
	return msg, env, err
}

func verifySig(pk keypair.PublicKey, hash common.Uint256, sig []byte) bool {
	if pk == nil {
		return false
	}
	return signature.Verify(pk, hash[:], sig) == nil
}

// signerOf finds the member whose key validates sig over hash (claimed index tried first).
func (c *c41) signerOf(claimed uint32, hash common.Uint256, sig []byte) int64 {
	if p := c.byIdx[claimed]; p != nil && verifySig(p.acct.PublicKey, hash, sig) {
		return int64(claimed)
	}
	for _, p := range c.parts {
		if p.idx != claimed && verifySig(p.acct.PublicKey, hash, sig) {
			return int64(p.idx)
		}
	}
	return -1
}

// votesOf extracts the support evidence a (verified) message carries. senderIdx is the index
// of the member whose key the receive path verified the message's own signature with.
func (c *c41) votesOf(msg vbft.ConsensusMsg, senderIdx uint32) []vote {
	switch msg.Type() {
	case vbft.BlockProposalMessage:
		b := vbft.VerifProposalBlock(msg)
		vs := []vote{{src: 0, claimed: b.Info.Proposer, signer: int64(b.Info.Proposer), proposer: b.Info.Proposer, empty: false, hash: b.Block.Hash()}}
		if b.EmptyBlock != nil {
			vs = append(vs, vote{src: 0, claimed: b.Info.Proposer, signer: int64(b.Info.Proposer), proposer: b.Info.Proposer, empty: true, hash: b.EmptyBlock.Hash()})
		}
		return vs
	case vbft.BlockEndorseMessage:
		var e wEndorse
		if err := readJSON(msg, &e); err != nil {
			panic(err)
		}
		return []vote{{src: 1, claimed: e.Endorser, signer: int64(senderIdx), proposer: e.EndorsedProposer, empty: e.EndorseForEmpty, hash: e.EndorsedBlockHash}}
	case vbft.BlockCommitMessage:
		var m wCommit
		if err := readJSON(msg, &m); err != nil {
			panic(err)
		}
		vs := []vote{{src: 2, claimed: m.Committer, signer: int64(senderIdx), proposer: m.BlockProposer, empty: m.CommitForEmpty, hash: m.CommitBlockHash, inCommit: true}}
		var keys []uint32
		for k := range m.EndorsersSig {
			keys = append(keys, k)
		}
		sort.Slice(keys, func(i, j int) bool { return keys[i] < keys[j] })
		for _, k := range keys {
			vs = append(vs, vote{src: 3, claimed: k, signer: c.signerOf(k, m.CommitBlockHash, m.EndorsersSig[k]), proposer: m.BlockProposer, empty: m.CommitForEmpty, hash: m.CommitBlockHash, inCommit: true})
		}
		return vs
	}
	return nil
}

// ---- admission shim ----------------------------------------------------------------------
//
// The BlockPool is only reachable through the Server. receive() mirrors, check by check, what
// the Server does between the socket and the pool, so that a Byzantine participant can inject
// exactly what a Byzantine consensus peer could get past the real Server (file:line refer to
// /repo at the commit the hook was added):
//
//  1. p2pserver/message/utils/msg_handler.go:174-186 ConsensusHandle: ConsensusPayload.Verify()
//     (signature of the payload owner over the unsigned payload), else dropped.
//  2. consensus/vbft/service.go:232-256 NewConsensusPayload: the owner's public key must map to
//     a peer index in the peer pool (GetPeerIndex), else dropped. The owner IS the sender.
//  3. service.go:577-616 run(): DeserializeVbftMsg (584); pk = public key of the sending peer
//     (589); for a proposal, sender and pk are replaced by the proposer named in the block
//     (595-600: proposals may be relayed); msg.Verify(pk) (602). For endorse/commit messages
//     Verify (msg_types.go:143-153, 179-190) checks only that EndorserSig/CommitterSig is a
//     signature of the SENDER over the hash written in the message. Nothing compares the
//     Endorser/Committer field with the sending peer, and nothing ever verifies the entries of
//     blockCommitMsg.EndorsersSig (grep: block_pool.go:469 and node_utils.go:338 only read them).
//  4. service.go:746-752 onConsensusMsg: a non-commit message whose hash (of the raw payload
//     data, 613) is already in the msg pool is dropped.
//  5. service.go:762-808 / 819-865 / 876-921: block number above the current round: stored in
//     the msg pool only (dropped beyond current+historyLen, msg_pool.go:121) and loaded into
//     the block pool by startNewRound (650-704: proposals, then endorsements, then commits);
//     below the current round: dropped; equal: msg pool + processing.
//  6. service.go:1048-1146 processProposalMsg (current-round proposals): previous block hash
//     (1056), cross-state root (1066-1075), timestamp after the previous block and not more
//     than 10 minutes ahead (1088-1094), proposer known (1097), VRF proof (1104). (The
//     LastConfigBlockNum / chain-config-hash checks concern config-change blocks, which this
//     engine does not produce; transaction verification by the tx pool is not modelled: the
//     transactions used here are well formed.)
//  7. service.go:1148-1152 processConsensusMsg and 1225-1425 processMsgEvent: for the current
//     round newBlockProposal (1246), newBlockEndorsement (1307), newBlockCommitment (1382) are
//     called unconditionally - whether the author is a proposer/endorser/committer of the round
//     is looked at only AFTER the pool has recorded the message (1254, 1324, 1401).

func hashData(data []byte) common.Uint256 {
	t := sha256.Sum256(data)
	f := sha256.Sum256(t[:])
	return common.Uint256(f)
}

type heldMsg struct {
	msg    vbft.ConsensusMsg
	sender uint32
	m      *wmsg
}

// receive delivers table message m to node r through the admission shim. Returns a short
// outcome label.
func (c *c41) receive(m *wmsg, r *part) string {
	run := c.run
	m.deliv[r.pos]++
	if m.deliv[r.pos] > 1 {
		run.Fault("duplicate_delivery")
	}
	pl := &mt.ConsensusPayload{}
	if err := pl.Deserialization(common.NewZeroCopySource(m.frame)); err != nil {
		return "drop:payload-undecodable"
	}
	if err := pl.Verify(); err != nil { // (1)
		return "drop:payload-signature"
	}
	fromPeer, ok := r.vn.PeerIndex(vconfig.PubkeyID(pl.Owner)) // (2)
	if !ok {
		run.Probe("non_member_vote_ignored")
		return "drop:sender-not-a-peer"
	}
	msg, err := vbft.DeserializeVbftMsg(pl.Data) // (3)
	if err != nil {
		return "drop:msg-undecodable"
	}
	pk := r.vn.PeerPubKey(fromPeer)
	if pk == nil {
		return "drop:no-pubkey"
	}
	if msg.Type() == vbft.BlockProposalMessage {
		b := vbft.VerifProposalBlock(msg)
		fromPeer = b.Info.Proposer
		pk = r.vn.PeerPubKey(fromPeer)
		if pk == nil {
			return "drop:unknown-proposer"
		}
	}
	if msg.Type() > vbft.BlockCommitMessage {
		return "drop:not-a-round-msg"
	}
	if err := msg.Verify(pk); err != nil {
		run.Fault("bad_signature_dropped")
		return "drop:msg-signature"
	}
	h := hashData(pl.Data)
	if msg.Type() != vbft.BlockCommitMessage && r.vn.MsgPoolHas(msg, h) { // (4)
		run.Probe("msgpool_suppressed_identical_duplicate")
		return "drop:msgpool-duplicate"
	}
	blk := msg.GetBlockNum() // (5)
	cur := r.vn.CurrentBlockNum()
	if blk < cur {
		return "drop:stale-round"
	}
	if err := r.vn.MsgPoolAdd(msg, h); err != nil {
		return "drop:far-future"
	}
	if blk > cur {
		r.held[blk] = append(r.held[blk], heldMsg{msg, fromPeer, m})
		run.Fault("msg_for_later_round_held")
		return "held for round " + fmt.Sprint(blk)
	}
	if msg.Type() == vbft.BlockProposalMessage { // (6)
		if why := c.proposalAdmissible(r, msg); why != "" {
			run.Probe("proposal_refused_by_server_checks")
			return "drop:proposal-" + why
		}
	}
	return c.feed(r, msg, fromPeer, m) // (7)
}

// proposalAdmissible repeats the checks of processProposalMsg that apply here.
func (c *c41) proposalAdmissible(r *part, msg vbft.ConsensusMsg) string {
	b := vbft.VerifProposalBlock(msg)
	blk := msg.GetBlockNum()
	prev, prevHash := r.vn.SealedBlock(blk - 1)
	if prev == nil {
		return "no-prev-block"
	}
	if b.Block.Header.PrevBlockHash != prevHash {
		return "prev-hash"
	}
	if root, err := r.node.L.GetCrossStateRoot(blk - 1); err == nil && root != b.Block.Header.CrossStateRoot {
		return "cross-state-root"
	}
	ts := b.Block.Header.Timestamp
	if ts <= prev.Block.Header.Timestamp || ts > uint32(time.Now().Add(10*time.Minute).Unix()) {
		return "timestamp"
	}
	pk := r.vn.PeerPubKey(b.Info.Proposer)
	if pk == nil {
		return "unknown-proposer"
	}
	data, err := json.Marshal(&struct {
		BlockNum uint32 `json:"block_num"`
		PrevVrf  []byte `json:"prev_vrf"`
	}{blk, prev.Info.VrfValue})
	if err != nil {
		return "vrf-data"
	}
	if ok, err := vrf.Verify(pk, data, b.Info.VrfValue, b.Info.VrfProof); err != nil || !ok {
		return "vrf"
	}
	return ""
}

// loadHeld is the part of startNewRound that moves messages stored for the new round from the
// msg pool into the block pool: proposals, then endorsements, then commits.
func (c *c41) loadHeld(r *part) {
	hs := r.held[c.blk]
	delete(r.held, c.blk)
	for _, kind := range []vbft.MsgType{vbft.BlockProposalMessage, vbft.BlockEndorseMessage, vbft.BlockCommitMessage} {
		for _, h := range hs {
			if h.msg.Type() != kind || c.stop {
				continue
			}
			if kind == vbft.BlockProposalMessage {
				if why := c.proposalAdmissible(r, h.msg); why != "" {
					continue
				}
			}
			out := c.feed(r, h.msg, h.sender, h.m)
			c.run.Logf("round start: node %d loads held msg %d: %s", r.idx, h.m.id, out)
			c.run.Probe("held_msg_loaded_at_round_start")
		}
	}
}

// feed hands a verified message to r's BlockPool, updates r's model and runs the oracle.
func (c *c41) feed(r *part, msg vbft.ConsensusMsg, senderIdx uint32, m *wmsg) string {
	blk := msg.GetBlockNum()
	var votes []vote
	if m != nil && m.decoded {
		votes = m.votes
	} else {
		votes = c.votesOf(msg, senderIdx)
		if m != nil {
			m.votes, m.decoded = votes, true
		}
	}
	mod := c.model(r.pos, blk)
	for _, v := range votes {
		mod.add(v)
	}
	var ferr error
	func() {
		defer func() {
			if e := recover(); e != nil {
				c.fail("pool-panic", "BlockPool panicked on node %d while adding a %s message for block %d: %v", r.idx, kindName(int(msg.Type())), blk, e)
			}
		}()
		ferr = r.vn.Feed(msg)
	}()
	if c.stop {
		return "panic"
	}
	out := "fed"
	if ferr != nil {
		out = "fed:" + shortErr(ferr)
		c.run.Probe("pool_rejected_" + shortErr(ferr))
	}
	c.oracle(r, blk)
	return out
}

func shortErr(err error) string {
	s := err.Error()
	switch {
	case strings.Contains(s, "multi proposal"):
		return "dup-proposal"
	case strings.Contains(s, "multi commit"):
		return "dup-commit"
	case strings.Contains(s, "multi endorsement"):
		return "dup-endorse"
	}
	return "error"
}

// quorumKey: the three explanatory classes are one key each (they are properties of how the
// pool attributes votes, whatever decision they surface in); a plain miscount is keyed by the
// decision it corrupts.
func quorumKey(decision string, empty bool, class string) string {
	if class != "below-quorum" {
		return "quorum-" + class
	}
	if empty {
		return decision + "-empty-below-quorum"
	}
	return decision + "-below-quorum"
}

func kindName(k int) string { return []string{"proposal", "endorse", "commit"}[k%3] }

// ---- sealing ----------------------------------------------------------------------------

func (c *c41) trySeal(r *part, why string) {
	run := c.run
	if r.sealed != nil || c.stop || r.dead {
		return
	}
	blk := c.blk
	if r.vn.CurrentBlockNum() != blk {
		return
	}
	v := c.view(r, blk)
	if len(v.commits) == 0 && !r.vn.CommittedForBlock(blk) {
		return // the Server has not looked at commitDone yet (no commit message, not committed)
	}
	cd, usable := c.commitAnswer(r, blk, v)
	if !usable {
		run.Logf("seal(%s) node %d: commit decision depends on map order, not used", why, r.idx)
		return
	}
	if !cd.done {
		return
	}
	prop := r.vn.FindBlockProposal(blk, cd.p, cd.fe)
	if prop == nil {
		run.Probe("commit_done_without_proposal")
		run.Logf("seal(%s) node %d: commit done for proposer %d empty=%v but proposal not held", why, r.idx, cd.p, cd.fe)
		return
	}
	pb := vbft.VerifProposalBlock(prop)
	if cd.fe && pb.EmptyBlock == nil {
		run.Logf("seal(%s) node %d: proposal of %d has no empty block", why, r.idx, cd.p)
		return
	}
	r.node.Use()
	var sealed *types.Block
	var err error
	func() {
		defer func() {
			if e := recover(); e != nil {
				c.fail("seal-panic", "setBlockSealed panicked on node %d block %d: %v", r.idx, blk, e)
			}
		}()
		sealed, err = r.vn.SealBlock(pb, cd.fe, true)
	}()
	if c.stop {
		return
	}
	if err != nil {
		c.fail("seal-failed-after-commit-done", "node %d block %d: commitDone decided (%d, empty=%v) but setBlockSealed failed: %v", r.idx, blk, cd.p, cd.fe, err)
		return
	}
	r.sealed = sealed
	c.sealedCnt++
	h := sealed.Hash()
	hdr := sealed.Header
	mod := c.model(r.pos, blk)
	run.Logf("seal(%s) node %d block %d: proposer %d empty=%v txs=%d", why, r.idx, blk, cd.p, cd.fe, len(sealed.Transactions))
	// agreement between pools
	for _, o := range c.parts {
		if o != r && o.sealed != nil && o.sealed.Hash() != h {
			c.diverged = true
		}
	}
	if c.nbyz <= int(c.C) {
		for _, o := range c.parts {
			if o != r && o.sealed != nil && o.sealed.Hash() != h {
				c.fail("pools-sealed-different-blocks", "block %d: node %d sealed (proposer %d, %d txs) but node %d sealed a different block (proposer %d, %d txs) with %d Byzantine participants (C=%d, N=%d)",
					blk, r.idx, proposerOf(sealed), len(sealed.Transactions), o.idx, proposerOf(o.sealed), len(o.sealed.Transactions), c.nbyz, c.C, c.N)
				break
			}
		}
	}
	// "a sealed block carries exactly one signature per distinct supporting participant"
	if len(hdr.Bookkeepers) != len(hdr.SigData) {
		c.fail("sealed-signature-count-mismatch", "node %d block %d: %d bookkeepers but %d signatures", r.idx, blk, len(hdr.Bookkeepers), len(hdr.SigData))
		return
	}
	sup := mod.supportersOfHash(cd.p, cd.fe, h)
	seen := map[string]bool{}
	var signerIdx, invalid, strangers, dups []int64
	for i, bk := range hdr.Bookkeepers {
		id := vconfig.PubkeyID(bk)
		idx, member := r.vn.PeerIndex(id)
		if !member {
			c.fail("sealed-signer-not-a-member", "node %d block %d: a bookkeeper of the sealed block is not a consensus peer", r.idx, blk)
			return
		}
		if seen[id] {
			dups = append(dups, int64(idx))
		}
		seen[id] = true
		if !verifySig(bk, h, hdr.SigData[i]) {
			invalid = append(invalid, int64(idx))
		} else if !sup[int64(idx)] {
			strangers = append(strangers, int64(idx))
		}
		signerIdx = append(signerIdx, int64(idx))
	}
	for _, l := range [][]int64{signerIdx, invalid, strangers, dups} {
		sort.Slice(l, func(i, j int) bool { return l[i] < l[j] })
	}
	if len(dups) > 0 {
		c.fail("sealed-duplicate-bookkeeper", "node %d block %d: participants %v appear more than once among the sealed block's bookkeepers %v", r.idx, blk, dups, signerIdx)
		return
	}
	if len(invalid) > 0 {
		// "sealed-invalid-signature" names the consequence of the pool's index-keyed records:
		// the participant did send (or was named in) a vote for (proposer, variant), but for
		// another block hash or signed by someone else. A bad signature without such a vote
		// means the pool attached a signature from a record that is not for this variant.
		key := "sealed-invalid-signature"
		for _, idx := range invalid {
			explained := false
			for _, v := range mod.votes {
				if int64(v.claimed) == idx && v.proposer == cd.p && v.empty == cd.fe && (v.hash != h || v.signer != idx) {
					explained = true
				}
			}
			if !explained {
				key = "sealed-signature-not-for-sealed-block"
			}
		}
		c.fail(key, "node %d block %d (proposer %d empty=%v): the sealed block carries signatures attributed to participants %v that do not verify for the sealed header (bookkeepers %v); model: valid supporters of this block hash are %v",
			r.idx, blk, cd.p, cd.fe, invalid, signerIdx, setStr(sup))
		// whether the ledger takes such a block depends on the position of the bad signature
		// (map order): the node is left out of the rest of the run instead
		r.dead = true
		c.anyDead = true
		return
	}
	if len(strangers) > 0 {
		c.fail("sealed-signer-not-supporter", "node %d block %d: sealed block carries signatures of participants %v, who are not among the supporters %v the node has evidence for", r.idx, blk, strangers, setStr(sup))
		return
	}
	// one signature for each participant the pool counted as supporter of (p, empty)
	view := r.vn.EndorseSigsView(blk)
	want := map[int64]bool{int64(cd.p): true}
	for e, sigs := range view {
		for _, s := range sigs {
			if s.EndorsedProposer == cd.p && s.ForEmpty == cd.fe && r.vn.PeerPubKey(e) != nil {
				want[int64(e)] = true
			}
		}
	}
	got := map[int64]bool{}
	for _, i := range signerIdx {
		got[i] = true
	}
	if fmt.Sprint(setStr(want)) != fmt.Sprint(setStr(got)) {
		c.fail("sealed-signers-differ-from-counted-supporters", "node %d block %d: the pool counted %v as supporters of (proposer %d, empty=%v) but the sealed block is signed by %v", r.idx, blk, setStr(want), cd.p, cd.fe, setStr(got))
		return
	}
	// the ledger's own header verification: persist the sealed block on this node's ledger
	// (ChainStore.submitBlock -> Ledger.SubmitBlock -> verifyHeader). submitBlock swallows the
	// error for the current height, so the ledger height is what tells.
	serr := r.vn.SubmitBlock(blk)
	if serr != nil || r.node.L.GetCurrentBlockHeight() != blk || r.node.L.GetCurrentBlockHash() != h {
		c.fail("sealed-block-rejected-by-ledger", "node %d block %d: the sealed block (%d signatures, N=%d) was not accepted by the node's ledger: err=%v height=%d", r.idx, blk, len(hdr.SigData), c.N, serr, r.node.L.GetCurrentBlockHeight())
		return
	}
	run.Probe("block_sealed_and_persisted")
	if uint32(len(signerIdx)) == c.N {
		run.Probe("sealed_with_all_N_signatures")
	}
	run.Logf("seal(%s) node %d block %d: persisted, signers %v", why, r.idx, blk, setStr(got))
}

func proposerOf(b *types.Block) uint32 {
	info, err := vconfig.VbftBlock(b.Header)
	if err != nil {
		return 0
	}
	return info.Proposer
}

// ---- participants' actions ------------------------------------------------------------------

func (c *c41) pickPart(a int64) *part {
	if a < 0 {
		a = -a
	}
	return c.parts[int(a%int64(len(c.parts)))]
}

// highestRank mirrors Server.getHighestRankProposal over the proposals r's pool holds.
func (c *c41) highestRank(r *part) vbft.ConsensusMsg {
	var best vbft.ConsensusMsg
	bestRank := 1 << 30
	for _, p := range r.vn.BlockProposals(c.blk) {
		b := vbft.VerifProposalBlock(p)
		if rk := r.vn.ProposerRank(c.blk, b.Info.Proposer); rk < bestRank {
			best, bestRank = p, rk
		}
	}
	return best
}

func (c *c41) selfDeliver(r *part, msg vbft.ConsensusMsg) {
	if h, err := vbft.HashMsg(msg); err == nil {
		r.vn.MsgPoolAdd(msg, h)
	}
	c.feed(r, msg, r.idx, nil)
}

func (c *c41) doPropose(st kernel.Step) {
	run := c.run
	r := c.pickPart(st.Arg(0))
	if r.sealed != nil || r.dead || r.vn.CurrentBlockNum() != c.blk {
		run.Logf("propose %d: noop (round over for this node)", r.idx)
		return
	}
	pc := r.vn.ParticipantConfig()
	rank := r.vn.ProposerRank(c.blk, r.idx)
	if !r.byz {
		if pc == nil || rank >= len(pc.Proposers) {
			run.Logf("propose %d: noop (not a proposer)", r.idx)
			return
		}
		if r.proposed {
			run.Logf("propose %d: noop (already proposed)", r.idx)
			return
		}
		if rank > 0 && len(r.vn.BlockProposals(c.blk)) > 0 {
			run.Logf("propose %d: noop (2nd proposer already holds a proposal)", r.idx)
			return
		}
	}
	ntx := int(st.Arg(1) & 3)
	if ntx == 3 {
		ntx = 0
	}
	var txs []*types.Transaction
	for i := 0; i < ntx; i++ {
		c.txNonce++
		txs = append(txs, c.w.NewTx(chain.NodeManager, "commitDpos", nil, c.txNonce))
	}
	r.node.Use()
	msg, err := r.vn.ConstructProposal(c.blk, nil, txs, nil)
	if err != nil {
		panic(fmt.Sprintf("constructProposalMsg: %v", err))
	}
	frame, err := frameOf(r.acct, msg)
	if err != nil {
		panic(err)
	}
	m := c.addMsg(kProposal, c.blk, r.pos, frame, fmt.Sprintf("proposal by %d (%d txs)", r.idx, ntx), true)
	m.proposer = r.idx
	if r.proposed {
		run.Fault("equivocating_proposer")
		m.fault = "equivocation"
	}
	if !r.byz && rank > 0 {
		run.Probe("second_proposer_proposed")
	}
	r.proposed = true
	run.Logf("propose %d: msg %d rank %d txs %d byz=%v", r.idx, m.id, rank, ntx, r.byz)
	c.selfDeliver(r, msg)
}

// proposalFor resolves the proposal an action refers to: honest participants use the highest
// rank proposal their own pool holds; Byzantine ones may name any proposal on the wire.
func (c *c41) proposalFor(r *part, pick int64) vbft.ConsensusMsg {
	if !r.byz {
		return c.highestRank(r)
	}
	props := c.roundProposals()
	if len(props) == 0 {
		return nil
	}
	if pick < 0 {
		pick = -pick
	}
	_, msg, err := decodeFrame(props[int(pick%int64(len(props)))].frame)
	if err != nil {
		return nil
	}
	return msg
}

func (c *c41) doEndorse(st kernel.Step) {
	run := c.run
	r := c.pickPart(st.Arg(0))
	empty := st.Arg(2)&1 == 1
	if r.sealed != nil || r.dead || r.vn.CurrentBlockNum() != c.blk {
		run.Logf("endorse %d: noop (round over for this node)", r.idx)
		return
	}
	prop := c.proposalFor(r, st.Arg(1))
	if prop == nil {
		run.Logf("endorse %d: noop (no proposal)", r.idx)
		return
	}
	pb := vbft.VerifProposalBlock(prop)
	if !r.byz {
		// Server.endorseBlock
		if pb.Info.Proposer == r.idx {
			run.Logf("endorse %d: noop (own proposal)", r.idx)
			return
		}
		if !empty && r.vn.EndorsedForBlock(c.blk) {
			run.Logf("endorse %d: noop (already endorsed)", r.idx)
			return
		}
		if empty && r.vn.EndorsedForEmptyBlock(c.blk) {
			run.Logf("endorse %d: noop (already endorsed empty)", r.idx)
			return
		}
		if empty && r.vn.CommittedForBlock(c.blk) {
			run.Logf("endorse %d: noop (already committed)", r.idx)
			return
		}
		if !empty && r.vn.EndorseFailed(c.blk, c.C) {
			empty = true
			run.Probe("endorse_failed_switch_to_empty")
		}
		msg, err := r.vn.ConstructEndorse(prop, empty)
		if err != nil {
			run.Logf("endorse %d: construct failed", r.idx)
			return
		}
		if err := r.vn.SetProposalEndorsed(prop, empty); err != nil {
			run.Logf("endorse %d: noop (setProposalEndorsed refused)", r.idx)
			return
		}
		bcast := empty || r.vn.IsEndorser(c.blk, r.idx)
		frame, err := frameOf(r.acct, msg)
		if err != nil {
			panic(err)
		}
		m := c.addMsg(kEndorse, c.blk, r.pos, frame, fmt.Sprintf("endorse by %d for %d empty=%v", r.idx, pb.Info.Proposer, empty), bcast)
		if empty {
			run.Fault("empty_block_vote")
		}
		if !bcast {
			run.Probe("non_endorser_keeps_endorsement_local")
		}
		run.Logf("endorse %d: msg %d for proposer %d empty=%v bcast=%v", r.idx, m.id, pb.Info.Proposer, empty, bcast)
		c.selfDeliver(r, msg)
		return
	}
	// Byzantine endorser: anything goes, any number of times.
	msg, err := r.vn.ConstructEndorse(prop, empty && pb.EmptyBlock != nil)
	if err != nil {
		run.Logf("endorse %d: construct failed", r.idx)
		return
	}
	var e wEndorse
	if err := readJSON(msg, &e); err != nil {
		panic(err)
	}
	variant := st.Arg(3) % 6
	aux := st.Arg(4)
	if aux < 0 {
		aux = -aux
	}
	fault := "byzantine_endorse"
	switch variant {
	case 1: // claim another participant's (or a non-member's) index
		if aux%4 == 0 {
			e.Endorser = 70 + uint32(aux%9)
			fault = "spoofed_non_member_index"
		} else {
			e.Endorser = c.parts[int(aux%int64(len(c.parts)))].idx
			fault = "spoofed_endorser_index"
		}
	case 2:
		if aux%2 == 0 {
			e.BlockNum++
		} else if e.BlockNum > 0 {
			e.BlockNum--
		}
		fault = "vote_for_other_block_number"
	case 3:
		e.EndorserSig = append([]byte{}, e.EndorserSig...)
		e.EndorserSig[len(e.EndorserSig)-1] ^= 0x40
		fault = "corrupted_signature"
	case 4: // sign some other hash while naming the proposer
		var hh common.Uint256
		copy(hh[:], kernel.NewRNG(uint64(aux)+1).Bytes(32))
		sig, err := signature.Sign(r.acct, hh[:])
		if err != nil {
			panic(err)
		}
		e.EndorsedBlockHash, e.EndorserSig = hh, sig
		fault = "vote_for_unknown_block_hash"
	case 5: // name a different proposer than the one whose block was signed
		e.EndorsedProposer = c.parts[int(aux%int64(len(c.parts)))].idx
		fault = "vote_names_other_proposer"
	}
	out, _, err := remake(vbft.BlockEndorseMessage, &e)
	if err != nil {
		run.Logf("endorse %d: crafted message does not decode", r.idx)
		return
	}
	frame, err := frameOf(r.acct, out)
	if err != nil {
		panic(err)
	}
	m := c.addMsg(kEndorse, e.BlockNum, r.pos, frame, fmt.Sprintf("byz endorse by %d claiming %d for %d empty=%v blk%+d %s", r.idx, e.Endorser, e.EndorsedProposer, e.EndorseForEmpty, int(e.BlockNum)-int(c.blk), fault), true)
	m.fault = fault
	run.Fault(fault)
	if e.EndorseForEmpty {
		run.Fault("empty_block_vote")
	}
	run.Logf("endorse %d: msg %d %s", r.idx, m.id, m.desc)
}

// endorsementsOnWire: decoded endorse messages of this round matching (hash, empty) - what a
// committer collects from its msg pool (honest: only those it received; Byzantine: all).
func (c *c41) endorsementsFor(r *part, hash common.Uint256, empty bool) []vbft.ConsensusMsg {
	var out []vbft.ConsensusMsg
	if !r.byz {
		for _, m := range r.vn.MsgPoolEndorsements(c.blk) {
			var e wEndorse
			if readJSON(m, &e) == nil && common.Uint256(e.EndorsedBlockHash) == hash && e.EndorseForEmpty == empty {
				out = append(out, m)
			}
		}
		return out
	}
	for _, m := range c.roundMsgs() {
		if m.kind != kEndorse {
			continue
		}
		_, msg, err := decodeFrame(m.frame)
		if err != nil {
			continue
		}
		var e wEndorse
		if readJSON(msg, &e) == nil && common.Uint256(e.EndorsedBlockHash) == hash && e.EndorseForEmpty == empty {
			out = append(out, msg)
		}
	}
	return out
}

func (c *c41) doCommit(st kernel.Step) {
	run := c.run
	r := c.pickPart(st.Arg(0))
	if r.sealed != nil || r.dead || r.vn.CurrentBlockNum() != c.blk {
		run.Logf("commit %d: noop (round over for this node)", r.idx)
		return
	}
	if !r.byz {
		// Server: commit after endorseDone on the own pool (processMsgEvent / timeouts -> commitBlock)
		if r.vn.CommittedForBlock(c.blk) {
			run.Logf("commit %d: noop (already committed)", r.idx)
			return
		}
		v := c.view(r, c.blk)
		ed, usable := c.endorseAnswer(r, c.blk, v)
		if !usable {
			// several answers are possible; which one this node gets is up to its map layout:
			// the plan chooses.
			cands := v.endorseCandidates(c.C)
			if len(cands) == 0 {
				run.Logf("commit %d: noop (endorse decision unstable)", r.idx)
				return
			}
			ed = cands[int((st.Arg(1)&0x7fffffff)%int64(len(cands)))]
			run.Probe("commit_on_one_of_several_endorse_quorums")
		}
		if !ed.done {
			run.Logf("commit %d: noop (endorse not done)", r.idx)
			return
		}
		prop := r.vn.FindBlockProposal(c.blk, ed.p, ed.fe)
		if prop == nil {
			run.Logf("commit %d: noop (endorsed proposal of %d not held)", r.idx, ed.p)
			return
		}
		pb := vbft.VerifProposalBlock(prop)
		if pb.Info.Proposer == r.idx {
			run.Logf("commit %d: noop (own proposal)", r.idx)
			return
		}
		if ed.fe && pb.EmptyBlock == nil {
			run.Logf("commit %d: noop (no empty block)", r.idx)
			return
		}
		hash := pb.Block.Hash()
		if ed.fe {
			hash = pb.EmptyBlock.Hash()
		}
		msg, err := r.vn.ConstructCommit(prop, c.endorsementsFor(r, hash, ed.fe), ed.fe)
		if err != nil {
			run.Logf("commit %d: construct failed", r.idx)
			return
		}
		if err := r.vn.SetProposalCommitted(prop, ed.fe); err != nil {
			run.Logf("commit %d: noop (setProposalCommitted refused)", r.idx)
			return
		}
		bcast := ed.fe || r.vn.IsCommitter(c.blk, r.idx)
		frame, err := frameOf(r.acct, msg)
		if err != nil {
			panic(err)
		}
		var w wCommit
		readJSON(msg, &w)
		m := c.addMsg(kCommit, c.blk, r.pos, frame, fmt.Sprintf("commit by %d for %d empty=%v with %d endorser sigs", r.idx, ed.p, ed.fe, len(w.EndorsersSig)), bcast)
		if ed.fe {
			run.Fault("empty_block_vote")
		}
		run.Logf("commit %d: msg %d for proposer %d empty=%v endorser-sigs=%d bcast=%v", r.idx, m.id, ed.p, ed.fe, len(w.EndorsersSig), bcast)
		c.selfDeliver(r, msg)
		return
	}
	prop := c.proposalFor(r, st.Arg(1))
	if prop == nil {
		run.Logf("commit %d: noop (no proposal)", r.idx)
		return
	}
	pb := vbft.VerifProposalBlock(prop)
	empty := st.Arg(2)&1 == 1 && pb.EmptyBlock != nil
	hash := pb.Block.Hash()
	if empty {
		hash = pb.EmptyBlock.Hash()
	}
	variant := st.Arg(3) % 6
	aux := st.Arg(4)
	if aux < 0 {
		aux = -aux
	}
	ends := c.endorsementsFor(r, hash, empty)
	if variant == 4 {
		ends = nil
	}
	msg, err := r.vn.ConstructCommit(prop, ends, empty)
	if err != nil {
		run.Logf("commit %d: construct failed", r.idx)
		return
	}
	var w wCommit
	if err := readJSON(msg, &w); err != nil {
		panic(err)
	}
	if w.EndorsersSig == nil {
		w.EndorsersSig = map[uint32][]byte{}
	}
	fault := "byzantine_commit"
	switch variant {
	case 1: // list endorsers that never signed: the committer's own signature or garbage under their index
		for i, p := range c.parts {
			if aux&(1<<uint(i)) != 0 && p != r {
				if _, have := w.EndorsersSig[p.idx]; !have {
					if aux&(1<<20) != 0 {
						w.EndorsersSig[p.idx] = append([]byte{}, w.CommitterSig...)
					} else {
						w.EndorsersSig[p.idx] = kernel.NewRNG(uint64(aux) + uint64(i)).Bytes(65)
					}
					fault = "forged_endorser_sigs_in_commit"
				}
			}
		}
	case 2:
		w.Committer = c.parts[int(aux%int64(len(c.parts)))].idx
		fault = "spoofed_committer_index"
	case 3:
		if aux%2 == 0 {
			w.BlockNum++
		} else if w.BlockNum > 0 {
			w.BlockNum--
		}
		fault = "vote_for_other_block_number"
	case 5:
		w.BlockProposer = c.parts[int(aux%int64(len(c.parts)))].idx
		fault = "vote_names_other_proposer"
	}
	out, _, err := remake(vbft.BlockCommitMessage, &w)
	if err != nil {
		run.Logf("commit %d: crafted message does not decode", r.idx)
		return
	}
	frame, err := frameOf(r.acct, out)
	if err != nil {
		panic(err)
	}
	m := c.addMsg(kCommit, w.BlockNum, r.pos, frame, fmt.Sprintf("byz commit by %d claiming %d for %d empty=%v blk%+d sigs=%d %s", r.idx, w.Committer, w.BlockProposer, w.CommitForEmpty, int(w.BlockNum)-int(c.blk), len(w.EndorsersSig), fault), true)
	m.fault = fault
	run.Fault(fault)
	if w.CommitForEmpty {
		run.Fault("empty_block_vote")
	}
	run.Logf("commit %d: msg %d %s", r.idx, m.id, m.desc)
}

func (c *c41) doOutsider(st kernel.Step) {
	run := c.run
	props := c.roundProposals()
	if len(props) == 0 {
		run.Logf("outsider: noop")
		return
	}
	_, prop, err := decodeFrame(props[int((st.Arg(0)&0x7fffffff)%int64(len(props)))].frame)
	if err != nil {
		return
	}
	ln := vbft.NewVerifLightNode(c.outsider, c.parts[int((st.Arg(1)&0x7fffffff)%int64(len(c.parts)))].idx)
	msg, err := ln.ConstructEndorse(prop, false)
	if err != nil {
		return
	}
	frame, err := frameOf(c.outsider, msg)
	if err != nil {
		panic(err)
	}
	m := c.addMsg(kEndorse, c.blk, -1, frame, fmt.Sprintf("endorse by a non-member claiming index %d", ln.Index()), true)
	m.fault = "non_member_sender"
	run.Fault("non_member_sender")
	run.Logf("outsider: msg %d %s", m.id, m.desc)
}

// doReencode: a Byzantine participant sends one of its own messages again with a different
// byte encoding (JSON tolerates trailing white space): the msg pool's hash-based duplicate
// suppression does not recognise it, so it reaches the block pool a second time.
func (c *c41) doReencode(st kernel.Step) {
	var own []*wmsg
	for _, m := range c.roundMsgs() {
		if m.sender >= 0 && c.parts[m.sender].byz && m.kind != kProposal {
			own = append(own, m)
		}
	}
	if len(own) == 0 {
		c.run.Logf("reencode: noop")
		return
	}
	m := own[int((st.Arg(0)&0x7fffffff)%int64(len(own)))]
	pl := &mt.ConsensusPayload{}
	if err := pl.Deserialization(common.NewZeroCopySource(m.frame)); err != nil {
		return
	}
	data := append(append([]byte{}, pl.Data...), ' ')
	frame, err := frameRaw(c.parts[m.sender].acct, data)
	if err != nil {
		panic(err)
	}
	n := c.addMsg(m.kind, m.blk, m.sender, frame, "re-encoded copy of msg "+fmt.Sprint(m.id)+": "+m.desc, true)
	n.fault = "reencoded_duplicate"
	c.run.Fault("reencoded_duplicate")
	c.run.Logf("reencode: msg %d = %s", n.id, n.desc)
}

func (c *c41) deliver(m *wmsg, r *part) {
	if r.dead {
		return
	}
	if m.sender == r.pos && m.fault == "" {
		// the sender already processed its own honest message
		c.run.Logf("deliver msg %d -> node %d: own message", m.id, r.idx)
		return
	}
	out := c.receive(m, r)
	c.run.Logf("deliver msg %d (%s) -> node %d: %s", m.id, m.desc, r.idx, out)
}

// ---- round management ---------------------------------------------------------------------

func (c *c41) startRound() bool {
	run := c.run
	var first *vbft.BlockParticipantConfig
	for _, p := range c.parts {
		prev, _ := p.vn.SealedBlock(c.blk - 1)
		if prev == nil {
			panic(fmt.Sprintf("node %d has no sealed block %d", p.idx, c.blk-1))
		}
		pc, err := p.vn.BuildParticipantConfig(c.blk, prev, c.cfg)
		if err != nil {
			run.Fail("C40", "selection-error", "round for block %d: buildParticipantConfig failed on node %d: %v (N=%d C=%d)", c.blk, p.idx, err, c.N, c.C)
			c.stop = true
			return false
		}
		if first == nil {
			first = pc
		} else if fmt.Sprint(first.Proposers, first.Endorsers, first.Committers) != fmt.Sprint(pc.Proposers, pc.Endorsers, pc.Committers) {
			run.Fail("C40", "nodes-disagree", "block %d: nodes derive different participants", c.blk)
			c.stop = true
			return false
		}
		p.vn.SetParticipantConfig(pc)
		p.proposed = false
		p.sealed = nil
	}
	c.roundFirst = len(c.msgs)
	c.rounds++
	run.Logf("round block %d: proposers %v endorsers %v committers %v", c.blk, first.Proposers, first.Endorsers, first.Committers)
	for _, p := range c.parts {
		c.loadHeld(p)
	}
	return !c.stop
}

// endRound: optional drain (every broadcast message of the round reaches every node that has
// not seen it), then every node whose pool says commit-done seals; nodes that did not decide
// are fast-forwarded with the sealed block (Server.fastForwardBlock path, sigdata=false).
func (c *c41) endRound(drain bool) bool {
	run := c.run
	if drain {
		for _, m := range c.roundMsgs() {
			if !m.bcast {
				continue
			}
			for _, p := range c.parts {
				if c.stop {
					return false
				}
				if m.deliv[p.pos] == 0 && m.sender != p.pos {
					c.deliver(m, p)
				}
			}
		}
	}
	for _, p := range c.parts {
		c.trySeal(p, "end")
		if c.stop {
			return false
		}
	}
	if c.anyDead {
		run.Logf("round block %d: a node sealed a block with an invalid signature; run ends", c.blk)
		return false
	}
	if c.diverged {
		run.Logf("round block %d: the nodes' chains have diverged; run ends", c.blk)
		return false
	}
	var ref *part
	for _, p := range c.parts {
		if p.sealed != nil {
			ref = p
			break
		}
	}
	if ref == nil {
		run.Probe("round_without_decision")
		run.Logf("round block %d ends undecided", c.blk)
		return false
	}
	run.Probe("round_decided")
	sink := common.NewZeroCopySink(nil)
	if err := ref.sealed.Serialization(sink); err != nil {
		panic(err)
	}
	for _, p := range c.parts {
		if p.sealed != nil {
			continue
		}
		if p.vn.CurrentBlockNum() != c.blk {
			continue
		}
		blk, err := types.BlockFromRawBytes(sink.Bytes())
		if err != nil {
			panic(err)
		}
		info, err := vconfig.VbftBlock(blk.Header)
		if err != nil {
			panic(err)
		}
		p.node.Use()
		sealed, err := p.vn.SealBlock(&vbft.Block{Block: blk, Info: info}, false, false)
		if err != nil {
			c.fail("fast-forward-failed", "node %d could not adopt the sealed block %d: %v", p.idx, c.blk, err)
			return false
		}
		serr := p.vn.SubmitBlock(c.blk)
		if serr != nil || p.node.L.GetCurrentBlockHeight() != c.blk {
			c.fail("sealed-block-rejected-by-ledger", "node %d (fast-forward) block %d: the block sealed by node %d was not accepted by the ledger: err=%v height=%d", p.idx, c.blk, ref.idx, serr, p.node.L.GetCurrentBlockHeight())
			return false
		}
		p.sealed = sealed
		run.Probe("laggard_fast_forwarded")
	}
	return true
}

// ---- run ------------------------------------------------------------------------------------

func execC41(run *kernel.Run) {
	p := run.Plan
	n := int(p.C("n", 4))
	if n < 4 {
		n = 4
	}
	if n > 10 {
		n = 10
	}
	c := &c41{run: run, N: uint32(n), byIdx: map[uint32]*part{}, failedKeys: map[string]bool{}}
	if p.C("strict", 0) == 1 {
		// main net past the legacy-threshold height: the ledger demands N - floor((N-1)/3) signatures
		old := ledgerstore.VerifLegacyQuorumHeight
		ledgerstore.VerifLegacyQuorumHeight = 0
		defer func() { ledgerstore.VerifLegacyQuorumHeight = old }()
		if ledgerstore.VerifKnobPatched {
			run.Probe("ledger_strict_quorum_rule")
		}
	}
	netID := uint32(2)
	if p.C("strict", 0) == 1 {
		netID = 1
	}
	w, err := chain.NewWorld(run, n, netID, 100000)
	if err != nil {
		panic(err)
	}
	defer func() { w.Close(); ledger.DefLedger = nil }()
	c.w = w
	c.outsider = chain.NewAccount(p.Seed, "outsider")
	// nodes
	for i := 0; i < n; i++ {
		nd, err := w.NewNode(fmt.Sprintf("n%d", i))
		if err != nil {
			panic(err)
		}
		c.parts = append(c.parts, &part{pos: i, idx: uint32(i + 1), acct: w.InitVals[i], node: nd, held: map[uint32][]heldMsg{}})
	}
	// history: a few blocks made by the producer stub, applied everywhere
	hist := int(p.C("hist", 0))
	for h := 0; h < hist; h++ {
		blk, err := c.parts[0].node.BuildBlock(&chain.BlockSpec{Nonce: uint64(h + 1)})
		if err != nil {
			panic(err)
		}
		res, err := c.parts[0].node.Produce(blk)
		if err != nil {
			panic(err)
		}
		for _, q := range c.parts[1:] {
			if err := q.node.Sync(blk, res.MerkleRoot); err != nil {
				panic(err)
			}
		}
	}
	// chain configuration in force: the genesis block's (real genConsensusPayload output)
	g, err := c.parts[0].node.L.GetBlockByHeight(0)
	if err != nil {
		panic(err)
	}
	ginfo, err := vconfig.VbftBlock(g.Header)
	if err != nil || ginfo.NewChainConfig == nil {
		panic("no genesis chain config")
	}
	c.cfg = jsonCopyCfg(ginfo.NewChainConfig)
	if c.cfg.N != uint32(n) {
		panic("genesis config N mismatch")
	}
	if 2*c.cfg.C+1 > c.cfg.N-c.cfg.C {
		// N divisible by 3: GenesisChainConfig's C = N/3 admits no participant selection at all
		// (C40 finding); the round engine then runs with the textual C = floor((N-1)/3).
		c.cfg.C = (c.cfg.N - 1) / 3
		run.Probe("c_overridden_for_n_multiple_of_3")
	}
	c.C = c.cfg.C
	nbyz := int(p.C("byz", 0))
	if nbyz > n {
		nbyz = n
	}
	// Byzantine positions: derived from the seed
	perm := kernel.NewRNG(kernel.Derive(p.Seed, "byz", 0)).Perm(n)
	for i := 0; i < nbyz; i++ {
		c.parts[perm[i]].byz = true
	}
	c.nbyz = nbyz
	hl := uint32(p.C("histlen", 64))
	if hl == 0 {
		hl = 1
	}
	for _, q := range c.parts {
		q.node.Use()
		vn, err := vbft.NewVerifNode(q.acct, q.node.L, c.cfg, hl)
		if err != nil {
			panic(err)
		}
		if vn.Index() != q.idx {
			panic("index mismatch")
		}
		q.vn = vn
		c.byIdx[q.idx] = q
		c.models = append(c.models, map[uint32]*roundModel{})
	}
	if p.C("connected", 1) == 1 {
		for _, q := range c.parts {
			for _, o := range c.parts {
				if o != q {
					q.vn.SetPeerConnected(o.idx, true)
				}
			}
		}
	}
	c.blk = uint32(hist) + 1
	var byzIdx []uint32
	for _, q := range c.parts {
		if q.byz {
			byzIdx = append(byzIdx, q.idx)
		}
	}
	run.Logf("N=%d C=%d byz=%v hist=%d strict=%d connected=%d", c.N, c.C, byzIdx, hist, p.C("strict", 0), p.C("connected", 1))
	if !c.startRound() {
		return
	}
	c.measureEmptyWeight()
	run.Logf("commitDone adds a non-endorser's empty vote %d time(s)", emptyWeight)
	alive := true
	for i, st := range p.Steps {
		if c.stop || !alive {
			break
		}
		run.StepNo = i
		run.Steps++
		switch st.Op {
		case "propose":
			c.doPropose(st)
		case "endorse":
			c.doEndorse(st)
		case "commit":
			c.doCommit(st)
		case "outsider":
			c.doOutsider(st)
		case "deliver":
			ms := c.msgs
			if len(ms) == 0 {
				break
			}
			m := ms[int((st.Arg(0)&0x7fffffff)%int64(len(ms)))]
			if st.Arg(2) == 0 {
				// default: a message of the current round
				rm := c.roundMsgs()
				if len(rm) == 0 {
					break
				}
				m = rm[int((st.Arg(0)&0x7fffffff)%int64(len(rm)))]
			} else {
				run.Fault("replayed_old_round_message")
			}
			c.deliver(m, c.pickPart(st.Arg(1)))
		case "bcast":
			rm := c.roundMsgs()
			if len(rm) == 0 {
				break
			}
			m := rm[int((st.Arg(0)&0x7fffffff)%int64(len(rm)))]
			order := kernel.NewRNG(uint64(st.Arg(1))).Perm(len(c.parts))
			if st.Arg(1) != 0 {
				run.Fault("reordered_delivery")
			}
			for _, k := range order {
				if c.stop {
					break
				}
				c.deliver(m, c.parts[k])
			}
		case "flush":
			c.flush(st)
		case "reencode":
			c.doReencode(st)
		case "seal":
			c.trySeal(c.pickPart(st.Arg(0)), "step")
		case "next":
			if c.endRound(st.Arg(0)&1 == 1) {
				c.blk++
				alive = c.startRound()
			} else {
				alive = false
			}
		}
	}
	if !c.stop && alive {
		run.StepNo = len(p.Steps)
		c.endRound(true)
	}
	nf := 0
	for _, v := range run.Faults {
		nf += v
	}
	if nf > 0 && c.sealedCnt > 0 && !run.Failed() {
		run.Nontrivial([]byte(run.TraceHash()))
	}
	run.Sample = map[string]interface{}{"N": c.N, "C": c.C, "byzantine": byzIdx, "rounds": c.rounds, "messages": len(c.msgs), "nodes_sealed": c.sealedCnt, "steps": len(p.Steps)}
}

// flush delivers every not yet delivered broadcast message of the round, in an order and with
// per-delivery withholding / duplication drawn from the step's own seed.
func (c *c41) flush(st kernel.Step) {
	run := c.run
	rng := kernel.NewRNG(uint64(st.Arg(0)) ^ 0x9e3779b97f4a7c15)
	drop, dup := st.Arg(1), st.Arg(2)
	type pair struct {
		m *wmsg
		p *part
	}
	var pairs []pair
	for _, m := range c.roundMsgs() {
		if !m.bcast {
			continue
		}
		for _, p := range c.parts {
			if m.deliv[p.pos] == 0 && !(m.sender == p.pos && m.fault == "") {
				pairs = append(pairs, pair{m, p})
			}
		}
	}
	if st.Arg(0) != 0 {
		for i := len(pairs) - 1; i > 0; i-- {
			j := rng.Intn(i + 1)
			pairs[i], pairs[j] = pairs[j], pairs[i]
		}
		if len(pairs) > 1 {
			run.Fault("reordered_delivery")
		}
	}
	for _, pr := range pairs {
		if c.stop {
			return
		}
		if int64(rng.Intn(1000)) < drop {
			run.Fault("delivery_withheld")
			continue
		}
		c.deliver(pr.m, pr.p)
		if !c.stop && int64(rng.Intn(1000)) < dup {
			c.deliver(pr.m, pr.p)
		}
	}
}

func genC41(rng *kernel.RNG, idx int, tier string) *kernel.Plan {
	p := &kernel.Plan{Cfg: map[string]int64{}}
	n := rng.Range(4, 10)
	if rng.Chance(0.35) {
		n = rng.Range(4, 5) // small N: thresholds are tightest
	}
	C := (n - 1) / 3
	byz := 0
	switch x := rng.Float(); {
	case x < 0.35:
		byz = 0
	case x < 0.85:
		byz = rng.Range(1, C)
	default:
		byz = C + 1
	}
	p.Cfg["n"], p.Cfg["byz"] = int64(n), int64(byz)
	p.Cfg["hist"] = int64(rng.Intn(3))
	p.Cfg["histlen"] = int64([]int{1, 2, 64}[rng.Intn(3)])
	p.Cfg["strict"] = int64(rng.Intn(2))
	p.Cfg["connected"] = 1
	if rng.Chance(0.2) {
		p.Cfg["connected"] = 0
	}
	rounds := 1
	if rng.Chance(0.4) {
		rounds = 2
	}
	if tier == "thorough" && rng.Chance(0.3) {
		rounds = 3
	}
	// swarm knobs of the run
	drop := int64(0)
	if rng.Chance(0.5) {
		drop = int64(rng.Intn(300))
	}
	dup := int64(0)
	if rng.Chance(0.5) {
		dup = int64(rng.Intn(400))
	}
	timeouts := rng.Chance(0.5)
	timeoutP := 0.2 + 0.6*rng.Float()
	add := func(op string, a ...int64) { p.Steps = append(p.Steps, kernel.Step{Op: op, A: a}) }
	flush := func() {
		seed := rng.Int63()
		if rng.Chance(0.15) {
			seed = 0
		}
		add("flush", seed, drop, dup)
	}
	byzStep := func(op string) {
		// who is resolved mod N at execution; Byzantine positions are seed-derived, so aim broadly
		add(op, int64(rng.Intn(n)), int64(rng.Intn(8)), int64(rng.Intn(2)), int64(rng.Intn(6)), rng.Int63()%(1<<22))
	}
	for r := 0; r < rounds; r++ {
		for _, who := range rng.Perm(n) {
			if rng.Chance(0.85) {
				add("propose", int64(who), int64(rng.Intn(4)))
			}
			if byz > 0 && rng.Chance(0.25) {
				add("propose", int64(who), int64(rng.Intn(4))) // honest: no-op; Byzantine: equivocation
			}
		}
		flush()
		waves := rng.Range(1, 2)
		for wv := 0; wv < waves; wv++ {
			for _, who := range rng.Perm(n) {
				if rng.Chance(0.9) {
					add("endorse", int64(who), int64(rng.Intn(8)), 0, 0, 0)
				}
				if byz > 0 && rng.Chance(0.35) {
					byzStep("endorse")
				}
				if rng.Chance(0.05) {
					add("outsider", rng.Int63()%1000, rng.Int63()%1000)
				}
			}
			flush()
		}
		if timeouts {
			for _, who := range rng.Perm(n) {
				if rng.Chance(timeoutP) {
					add("endorse", int64(who), int64(rng.Intn(8)), 1, 0, 0)
				}
				if byz > 0 && rng.Chance(0.3) {
					byzStep("endorse")
				}
			}
			flush()
		}
		cw := rng.Range(1, 2)
		for wv := 0; wv < cw; wv++ {
			for _, who := range rng.Perm(n) {
				if rng.Chance(0.9) {
					add("commit", int64(who), int64(rng.Intn(4)), 0, 0, 0)
				}
				if byz > 0 && rng.Chance(0.35) {
					byzStep("commit")
				}
				if byz > 0 && rng.Chance(0.1) {
					add("reencode", rng.Int63()%1000)
				}
				if rng.Chance(0.15) {
					add("seal", int64(rng.Intn(n)))
				}
			}
			flush()
			if rng.Chance(0.3) {
				add("deliver", rng.Int63()%1000, int64(rng.Intn(n)), int64(rng.Intn(4)/3))
			}
		}
		for _, who := range rng.Perm(n) {
			if rng.Chance(0.5) {
				add("seal", int64(who))
			}
		}
		if r+1 < rounds {
			add("next", int64(rng.Intn(2)))
		}
	}
	return p
}

func init() {
	kernel.Register(&kernel.Check{
		ID: "C41", Level: "exploration", Engine: "E4 round (VBFT round decisions)",
		Rule: "a run is 1-3 consensus rounds among N=4..10 participants (C=floor((N-1)/3), 0..C+1 of them Byzantine), each with a real BlockPool over its own real ledger; the plan schedules proposals, endorsements, empty-block (timeout) endorsements, commits, seals and message deliveries (per-receiver order, withholding, duplication, re-encoded copies, replays from older rounds); honest participants act on their own pool as the Server would, Byzantine ones (signing with their own keys only) equivocate, write other participants' indices into their messages, embed forged endorser signatures in commits, vote for other block numbers/hashes; every message travels as a signed ConsensusPayload through an admission shim that repeats the Server's checks line by line before it reaches a pool; the oracle runs after every message; non-trivial = at least one fault fired and at least one node sealed a block; distinct = trace digest of the run",
		Real: []string{"consensus/vbft BlockPool (newBlockProposal, newBlockEndorsement, newBlockCommitment, addBlockEndorsementLocked, endorseDone, endorseFailed, commitDone, setBlockSealed, addSignaturesToBlockLocked, setProposalEndorsed/Committed), getCommitConsensus, isEndorser/isCommitter, buildParticipantConfig, constructProposalMsg/constructBlock, constructEndorseMsg, constructCommitMsg, computeVrf, MsgPool (AddMsg/HasMsg/GetEndorsementsMsgs), PeerPool, ChainStore (AddBlock, submitBlock) through export_verif.go", "SerializeVbftMsg/DeserializeVbftMsg, the messages' Verify methods, p2p ConsensusPayload codec + Verify, ontology-crypto vrf.Verify", "core/ledger + ledgerstore (ExecuteBlock, SubmitBlock, verifyHeader) on every node; genesis chain config from genConsensusPayload"},
		Stub: []string{"VBFT Server state machine, timers and goroutines: replaced by (a) an admission shim that mirrors ConsensusHandle, NewConsensusPayload, run(), onConsensusMsg, processProposalMsg and startNewRound's loading of stored messages (file:line in c41.go), (b) plan-scheduled actions that mirror endorseBlock / commitBlock / sealBlock and the timeouts; the commit decision is looked at only where the Server looks at it (commit message held or node has committed)", "network: message table with plan-driven delivery", "LastConfigBlockNum / chain-config-hash checks of processProposalMsg (no config-change blocks here) and tx-pool verification of proposal transactions are not modelled"},
		Assumptions: []string{"the reference model counts a member as supporter of a proposal when a message that passed the Server's own checks carries a signature of that member's key over that proposal's block hash; a proposal is (proposer, empty?, block hash); the proposer's signatures on its block and its empty block count as its support of both",
			"endorseDone/commitDone return the first quorum their Go map iteration meets; where the pool's records hold more than one quorum the answer is not a function of the state (reported under C16): the harness then checks every answer that its analysis of the records finds possible against the model, cross-checks that analysis against sampled answers (probe analysis_missed_*, must stay 0) and lets no action depend on the sampled answer (honest participants wait, no seal)",
			"C is the chain configuration's (GenesisChainConfig: floor((N-1)/3) since the C40 repair; a tree without it would be run with that value for N divisible by 3, where N/3 admits no selection)",
			"ECDSA signatures, VRF proofs and block nonces are randomised: block hashes differ between executions of one plan and are never logged or used to order anything",
			"agreement between pools is asserted only with at most C Byzantine participants; quorum-level violations do not end a run (the seal and agreement oracles show what they lead to), all others do"},
		QuickRuns: 1000, ThoroughRuns: 90000, QuickCap: 40, ThoroughCap: 800,
		RequiredProbes: []string{"endorse_done_exactly_C_plus_1", "commit_by_endorse_sigs", "empty_block_decision", "non_member_vote_ignored", "block_sealed_and_persisted", "duplicate_delivery", "reordered_delivery", "equivocating_proposer", "empty_block_vote", "commit_done_exactly_at_threshold"},
		Generate:       genC41, Execute: execC41,
	})
}
