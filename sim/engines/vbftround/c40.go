// Package vbftround is polysim engine E4 "round": the VBFT round-decision state (BlockPool,
// participant selection, message builders) driven without the VBFT Server, through the
// add-only hook consensus/vbft/export_verif.go (build tag verif).
package vbftround

import (
	"encoding/json"
	"fmt"
	"sort"

	"github.com/polynetwork/poly/account"
	"github.com/polynetwork/poly/common"
	"github.com/polynetwork/poly/common/config"
	"github.com/polynetwork/poly/consensus/vbft"
	vconfig "github.com/polynetwork/poly/consensus/vbft/config"
	"github.com/polynetwork/poly/core/types"

	"polysim/chain"
	"polysim/kernel"
)

// ---------------------------------------------------------------------------------------
// C40: participant selection is well formed.
// ---------------------------------------------------------------------------------------

type c40peer struct {
	idx  uint32
	acct *account.Account
}

type c40ctx struct {
	run     *kernel.Run
	seed    uint64
	peers   []c40peer // in the order they are handed to GenesisChainConfig (governance: map order)
	nextIdx uint32
	nacct   int
	height  uint32
	cmode   int // 0: C as GenesisChainConfig computes it; 1: C = floor((N-1)/3) (the value the properties' text uses)
	cfg     *vconfig.ChainConfig
	nodes   []*vbft.VerifNode
	blocks  []*vbft.Block // real sealed blocks of a chain.World ledger (mode 0)
	world   *chain.World
	sig     []byte
	evals   int
}

func (c *c40ctx) newAcct() *account.Account {
	c.nacct++
	return chain.NewAccount(c.seed, fmt.Sprintf("c40peer%d", c.nacct))
}

func vbftBaseConfig() *config.VBFTConfig {
	return &config.VBFTConfig{BlockMsgDelay: 10000, HashMsgDelay: 10000, PeerHandshakeTimeout: 10, MaxBlockChangeView: 100000}
}

// rebuild runs the real GenesisChainConfig over the current peer list (as getChainConfig does
// with the list GetPeersConfig read from the governance pool).
func (c *c40ctx) rebuild() error {
	infos := make([]*config.VBFTPeerInfo, 0, len(c.peers))
	for _, p := range c.peers {
		infos = append(infos, &config.VBFTPeerInfo{Index: p.idx, PeerPubkey: chain.PubHex(p.acct), Address: p.acct.Address.ToBase58()})
	}
	cfg, err := vconfig.GenesisChainConfig(vbftBaseConfig(), infos, c.height)
	if err != nil {
		return err
	}
	if c.cmode == 1 {
		cfg.C = (cfg.N - 1) / 3
	}
	c.cfg = cfg
	return nil
}

func jsonCopyCfg(cfg *vconfig.ChainConfig) *vconfig.ChainConfig {
	b, err := json.Marshal(cfg)
	if err != nil {
		panic(err)
	}
	out := &vconfig.ChainConfig{}
	if err := json.Unmarshal(b, out); err != nil {
		panic(err)
	}
	return out
}

// synthBlock is a previous block carrying plan-chosen VRF bytes (only the fields
// getParticipantSelectionSeed reads matter: height, proposer, block root, vrf value).
func synthBlock(rng *kernel.RNG, height uint32) *vbft.Block {
	var root common.Uint256
	copy(root[:], rng.Bytes(32))
	vl := []int{0, 1, 32, 64, 65, 65, 65, 130}[rng.Intn(8)]
	info := &vconfig.VbftBlockInfo{Proposer: uint32(rng.Intn(50)), VrfValue: rng.Bytes(vl), VrfProof: rng.Bytes(64), LastConfigBlockNum: 0}
	payload, _ := json.Marshal(info)
	hdr := &types.Header{Version: types.CURR_HEADER_VERSION, Height: height, BlockRoot: root, Timestamp: 1 + height, ConsensusPayload: payload}
	return &vbft.Block{Block: &types.Block{Header: hdr}, Info: info}
}

// rewireBlock sends the block through its own codec (vbft.Block.Serialize/Deserialize), as a
// peer that received it from the network would hold it.
func rewireBlock(b *vbft.Block) (*vbft.Block, error) {
	raw, err := b.Serialize()
	if err != nil {
		return nil, err
	}
	out := &vbft.Block{}
	if err := out.Deserialize(raw); err != nil {
		return nil, err
	}
	return out, nil
}

func u32s(a []uint32) string { return fmt.Sprint(a) }

type selection struct{ P, E, C []uint32 }

// wellFormed is the oracle of C40, written from the property text. table is the position
// table, cC the configuration's C.
func wellFormed(run *kernel.Run, what string, s selection, table []uint32, cN, cC uint32) bool {
	inTable := map[uint32]bool{}
	for _, v := range table {
		inTable[v] = true
	}
	for _, l := range []struct {
		name string
		v    []uint32
	}{{"proposers", s.P}, {"endorsers", s.E}, {"committers", s.C}} {
		seen := map[uint32]bool{}
		for _, id := range l.v {
			if !inTable[id] {
				run.Fail("C40", "member-not-in-table", "%s: %s contain %d which is not in the position table (N=%d C=%d) %v", what, l.name, id, cN, cC, l.v)
				return false
			}
			if seen[id] {
				run.Fail("C40", "duplicate-member", "%s: %s contain %d twice (N=%d C=%d): %v", what, l.name, id, cN, cC, l.v)
				return false
			}
			seen[id] = true
		}
	}
	if uint32(len(s.P)) != cC+1 {
		run.Fail("C40", "proposer-count", "%s: %d proposers, the text demands C+1 = %d (N=%d): %v", what, len(s.P), cC+1, cN, s.P)
		return false
	}
	if uint32(len(s.E)) < 2*cC {
		run.Fail("C40", "endorser-count", "%s: %d endorsers < 2C = %d (N=%d): %v", what, len(s.E), 2*cC, cN, s.E)
		return false
	}
	if uint32(len(s.C)) < 2*cC {
		run.Fail("C40", "committer-count", "%s: %d committers < 2C = %d (N=%d): %v", what, len(s.C), 2*cC, cN, s.C)
		return false
	}
	// "Endorsers and committers exclude the leading proposers": of the C+1 proposers the
	// leading C (all but the last reserve) must not reappear. For C = 0 there is a single
	// proposer; the text's plural gives no obligation there and none is asserted.
	lead := map[uint32]bool{}
	for i := 0; i < int(cC) && i < len(s.P); i++ {
		lead[s.P[i]] = true
	}
	for _, id := range s.E {
		if lead[id] {
			run.Fail("C40", "leading-proposer-not-excluded", "%s: endorsers %v contain leading proposer %d (proposers %v, C=%d)", what, s.E, id, s.P, cC)
			return false
		}
	}
	for _, id := range s.C {
		if lead[id] {
			run.Fail("C40", "leading-proposer-not-excluded", "%s: committers %v contain leading proposer %d (proposers %v, C=%d)", what, s.C, id, s.P, cC)
			return false
		}
	}
	return true
}

func sameSel(a, b selection) bool {
	return u32s(a.P) == u32s(b.P) && u32s(a.E) == u32s(b.E) && u32s(a.C) == u32s(b.C)
}

// evalBlock evaluates buildParticipantConfig for (prev, cfg) on every node, 8 times per node,
// half of the nodes working on codec copies of the inputs.
func (c *c40ctx) evalBlock(what string, prev *vbft.Block) {
	run := c.run
	cfg := c.cfg
	blkNum := prev.Block.Header.Height + 1
	var first *selection
	var firstErr string
	gotErr, gotOK := false, false
	for ni, nd := range c.nodes {
		useCfg, usePrev := cfg, prev
		if ni%2 == 1 {
			useCfg = jsonCopyCfg(cfg)
			if p2, err := rewireBlock(prev); err == nil {
				usePrev = p2
			}
		}
		for rep := 0; rep < 8; rep++ {
			var pc *vbft.BlockParticipantConfig
			var err error
			func() {
				defer func() {
					if e := recover(); e != nil {
						err = fmt.Errorf("PANIC: %v", e)
						run.Fail("C40", "selection-panic", "%s: buildParticipantConfig panicked on node %d: %v (N=%d C=%d table %d entries)", what, ni, e, cfg.N, cfg.C, len(cfg.PosTable))
					}
				}()
				pc, err = nd.BuildParticipantConfig(blkNum, usePrev, useCfg)
			}()
			if run.Failed() {
				return
			}
			c.evals++
			if err != nil {
				gotErr = true
				if firstErr == "" {
					firstErr = err.Error()
				}
				continue
			}
			gotOK = true
			s := selection{pc.Proposers, pc.Endorsers, pc.Committers}
			if first == nil {
				first = &s
				if pc.BlockNum != blkNum || pc.ChainConfig != useCfg {
					run.Fail("C40", "config-fields", "%s: participant config carries blockNum %d (want %d)", what, pc.BlockNum, blkNum)
					return
				}
			} else if !sameSel(*first, s) {
				run.Fail("C40", "nodes-disagree", "%s: node %d evaluation %d selected %v/%v/%v, first evaluation selected %v/%v/%v (same seed, same config N=%d C=%d)",
					what, ni, rep, s.P, s.E, s.C, first.P, first.E, first.C, cfg.N, cfg.C)
				return
			}
		}
	}
	if gotErr && gotOK {
		run.Fail("C40", "nodes-disagree", "%s: some evaluations failed (%s) and others succeeded for the same inputs", what, firstErr)
		return
	}
	if gotErr {
		// No selection exists for this (seed, configuration): the text promises minimum sizes
		// "for any selection seed and position table".
		if 2*cfg.C+1 > cfg.N-cfg.C || cfg.C+1 > cfg.N {
			run.Probe("selection_impossible_config")
			run.Fail("C40", "selection-impossible-for-config", "%s: buildParticipantConfig fails for every seed with N=%d C=%d (%s): after excluding C leading proposers only N-C=%d peers remain but the endorser/committer loop only ends with more than 2C=%d members",
				what, cfg.N, cfg.C, firstErr, cfg.N-cfg.C, 2*cfg.C)
		} else {
			// a selection exists for this configuration, but not for this seed: the endorser /
			// committer walk over the seed's positions (k < 512; committers start at k = 272)
			// ended before it had met more than 2C distinct peers outside the leading proposers
			run.Probe("selection_fails_for_this_seed")
			run.Fail("C40", "selection-fails-for-some-seeds", "%s: buildParticipantConfig failed for this seed: %s (N=%d C=%d, %d peers remain after excluding the leading proposers, more than %d are demanded, at most %d positions of the seed are looked at for committers)",
				what, firstErr, cfg.N, cfg.C, cfg.N-cfg.C, 2*cfg.C, 512-vconfig.MAX_PROPOSER_COUNT-vconfig.MAX_ENDORSER_COUNT)
		}
		return
	}
	if !wellFormed(run, what, *first, cfg.PosTable, cfg.N, cfg.C) {
		return
	}
	c.note(*first)
	run.Logf("%s N=%d C=%d h=%d -> P=%v E=%v C=%v", what, cfg.N, cfg.C, blkNum, first.P, first.E, first.C)
	c.sig = append(c.sig, []byte(fmt.Sprintf("%v%v%v|", first.P, first.E, first.C))...)
}

func (c *c40ctx) note(s selection) {
	run := c.run
	cfg := c.cfg
	if uint32(len(s.E)) == 2*cfg.C+1 {
		run.Probe("endorsers_2C_plus_1")
	}
	if uint32(len(s.E)) == cfg.N-cfg.C && cfg.C > 0 {
		run.Probe("endorsers_all_remaining_peers")
	}
	last := s.P[len(s.P)-1]
	for _, id := range s.E {
		if id == last && cfg.C > 0 {
			run.Probe("reserve_proposer_is_endorser")
			break
		}
	}
	run.State([]byte(fmt.Sprintf("%d/%d/%v%v%v", cfg.N, cfg.C, s.P, s.E, s.C)))
}

// evalRaw composes the three lists from a raw seed exactly as buildParticipantConfig does
// (start offsets 0 / 32 / 272) through the exported calcParticipantPeers wrapper, so that
// structured seeds (which a SHA-512 output practically never is) are covered as well.
func (c *c40ctx) evalRaw(what string, seed vconfig.VRFValue) {
	run := c.run
	cfg := c.cfg
	var first *selection
	for rep := 0; rep < 4; rep++ {
		var s selection
		ok := true
		func() {
			defer func() {
				if e := recover(); e != nil {
					ok = false
					run.Fail("C40", "selection-panic", "%s: calcParticipantPeers panicked: %v (N=%d C=%d)", what, e, cfg.N, cfg.C)
				}
			}()
			pc := &vbft.BlockParticipantConfig{BlockNum: 1, Vrf: seed, ChainConfig: cfg}
			st := 0
			p := vbft.VerifCalcParticipantPeers(pc, cfg, st, st+vconfig.MAX_PROPOSER_COUNT)
			if uint32(len(p)) < cfg.C+1 {
				ok = false
				return
			}
			pc.Proposers = p[:cfg.C+1]
			st += vconfig.MAX_PROPOSER_COUNT
			pc.Endorsers = vbft.VerifCalcParticipantPeers(pc, cfg, st, st+vconfig.MAX_ENDORSER_COUNT)
			st += vconfig.MAX_ENDORSER_COUNT
			pc.Committers = vbft.VerifCalcParticipantPeers(pc, cfg, st, st+vconfig.MAX_COMMITTER_COUNT)
			if uint32(len(pc.Endorsers)) < 2*cfg.C || uint32(len(pc.Committers)) < 2*cfg.C {
				ok = false
				return
			}
			s = selection{pc.Proposers, pc.Endorsers, pc.Committers}
		}()
		if run.Failed() {
			return
		}
		c.evals++
		if !ok {
			// buildParticipantConfig reports an error for such a seed; structured raw seeds
			// cannot be produced by getParticipantSelectionSeed, so this is a probe only.
			run.Probe("raw_seed_no_selection")
			run.Logf("%s N=%d C=%d raw seed yields no selection", what, cfg.N, cfg.C)
			return
		}
		if first == nil {
			first = &s
		} else if !sameSel(*first, s) {
			run.Fail("C40", "nodes-disagree", "%s: repeated evaluation of a raw seed differs: %v/%v/%v vs %v/%v/%v", what, s.P, s.E, s.C, first.P, first.E, first.C)
			return
		}
	}
	if !wellFormed(run, what, *first, cfg.PosTable, cfg.N, cfg.C) {
		return
	}
	run.Probe("raw_seed_selection")
	c.note(*first)
	run.Logf("%s N=%d C=%d raw -> P=%v E=%v C=%v", what, cfg.N, cfg.C, first.P, first.E, first.C)
	c.sig = append(c.sig, []byte(fmt.Sprintf("%v%v%v|", first.P, first.E, first.C))...)
}

func rawSeed(rng *kernel.RNG, kind int64) vconfig.VRFValue {
	var v vconfig.VRFValue
	switch kind % 6 {
	case 0:
		copy(v[:], rng.Bytes(64))
	case 1:
		for i := range v {
			v[i] = 0xff
		}
	case 2:
		b := byte(rng.Intn(256))
		for i := range v {
			v[i] = b
		}
	case 3:
		v[rng.Intn(64)] = 1 << uint(rng.Intn(8))
	case 4:
		for i := range v {
			v[i] = byte(i * (1 + rng.Intn(7)))
		}
	case 5:
		copy(v[:32], rng.Bytes(32))
	}
	return v
}

func execC40(run *kernel.Run) {
	p := run.Plan
	c := &c40ctx{run: run, seed: p.Seed, cmode: int(p.C("cmode", 0))}
	n := int(p.C("n", 4))
	if n < 1 {
		n = 1
	}
	mode := p.C("mode", 1)
	if mode == 0 {
		// a real chain: genesis configuration from genConsensusPayload, sealed blocks from the
		// producer stub; peers 1..n as the genesis file lists them.
		w, err := chain.NewWorld(run, n, 2, 100000)
		if err != nil {
			panic(err)
		}
		defer w.Close()
		c.world = w
		nd, err := w.NewNode("n0")
		if err != nil {
			panic(err)
		}
		for i, a := range w.InitVals {
			c.peers = append(c.peers, c40peer{uint32(i + 1), a})
		}
		c.nextIdx = uint32(n + 1)
		nb := int(p.C("blocks", 2))
		for h := 0; h <= nb; h++ {
			if h > 0 {
				blk, err := nd.BuildBlock(&chain.BlockSpec{Nonce: uint64(h) * 7})
				if err != nil {
					panic(err)
				}
				if _, err := nd.Produce(blk); err != nil {
					panic(err)
				}
			}
			blk, err := nd.L.GetBlockByHeight(uint32(h))
			if err != nil {
				panic(err)
			}
			info, err := vconfig.VbftBlock(blk.Header)
			if err != nil {
				panic(err)
			}
			c.blocks = append(c.blocks, &vbft.Block{Block: blk, Info: info})
		}
		c.cfg = c.blocks[0].Info.NewChainConfig
		if c.cfg == nil {
			panic("genesis block without chain config")
		}
		if c.cmode == 1 {
			c.cfg = jsonCopyCfg(c.cfg)
			c.cfg.C = (c.cfg.N - 1) / 3
		}
		run.Probe("config_from_real_genesis_block")
	} else {
		for i := 0; i < n; i++ {
			c.peers = append(c.peers, c40peer{uint32(i + 1), c.newAcct()})
		}
		c.nextIdx = uint32(n + 1)
		if err := c.rebuild(); err != nil {
			panic(err)
		}
	}
	for i := 0; i < 3; i++ {
		c.nodes = append(c.nodes, vbft.NewVerifLightNode(chain.NewAccount(p.Seed, fmt.Sprintf("c40node%d", i)), uint32(100+i)))
	}
	for i, st := range p.Steps {
		run.StepNo = i
		run.Steps++
		rng := kernel.NewRNG(kernel.Derive(p.Seed, "c40step", uint64(i)))
		switch st.Op {
		case "cfg":
			kind, a := st.Arg(0)%6, st.Arg(1)
			if a < 0 {
				a = -a
			}
			switch kind {
			case 0:
				c.height = uint32(a % 1000000)
			case 1: // the governance pool is a Go map: any order of the peer list may reach GenesisChainConfig
				r := kernel.NewRNG(uint64(a))
				perm := r.Perm(len(c.peers))
				np := make([]c40peer, len(c.peers))
				for j, k := range perm {
					np[j] = c.peers[k]
				}
				c.peers = np
				run.Fault("peer_list_permuted")
			case 2:
				if len(c.peers) > 4 {
					k := int(a) % len(c.peers)
					c.peers = append(c.peers[:k:k], c.peers[k+1:]...)
					run.Fault("peer_removed")
				}
			case 3:
				if len(c.peers) < int(p.C("maxn", 10)) {
					c.nextIdx += uint32(a % 4)
					c.peers = append(c.peers, c40peer{c.nextIdx, c.newAcct()})
					c.nextIdx++
					run.Fault("peer_added")
				}
			case 4: // indices as they look after many registrations and quits: increasing, with gaps
				r := kernel.NewRNG(uint64(a))
				sorted := append([]c40peer{}, c.peers...)
				sort.Slice(sorted, func(x, y int) bool { return sorted[x].idx < sorted[y].idx })
				next := uint32(1 + r.Intn(5))
				remap := map[uint32]uint32{}
				for _, q := range sorted {
					remap[q.idx] = next
					next += uint32(1 + r.Intn(9))
				}
				for j := range c.peers {
					c.peers[j].idx = remap[c.peers[j].idx]
				}
				c.nextIdx = next
				run.Fault("indices_non_contiguous")
			case 5:
				c.cmode = int(a % 2)
			}
			if err := c.rebuild(); err != nil {
				panic(err)
			}
			run.Logf("cfg kind=%d N=%d C=%d height=%d table=%d", kind, c.cfg.N, c.cfg.C, c.height, len(c.cfg.PosTable))
		case "eval":
			kind := st.Arg(0) % 3
			switch kind {
			case 0:
				if len(c.blocks) > 0 {
					k := int(st.Arg(1)&0x7fffffff) % len(c.blocks)
					run.Probe("seed_from_real_sealed_block")
					c.evalBlock(fmt.Sprintf("real block %d", k), c.blocks[k])
				} else {
					c.evalBlock("synthetic block", synthBlock(rng, uint32(st.Arg(1)&0xffff)))
				}
			case 1:
				run.Probe("seed_from_plan_vrf_bytes")
				c.evalBlock("synthetic block", synthBlock(rng, uint32(st.Arg(1)&0xffff)))
			case 2:
				c.evalRaw(fmt.Sprintf("raw seed kind %d", st.Arg(1)%6), rawSeed(rng, st.Arg(1)))
			}
		}
		if run.Failed() {
			break
		}
	}
	run.Probes["__evals"] = c.evals
	if c.evals > 0 && !run.Failed() {
		run.Nontrivial(c.sig)
	}
	run.Sample = map[string]interface{}{"mode": mode, "n_initial": n, "n_final": len(c.peers), "cmode": c.cmode, "steps": len(p.Steps), "evaluations": c.evals}
}

func genC40(rng *kernel.RNG, idx int, tier string) *kernel.Plan {
	p := &kernel.Plan{Cfg: map[string]int64{}}
	n := rng.Range(4, 10)
	maxn := 10
	mode := int64(1)
	if rng.Chance(0.25) {
		mode = 0
	}
	// large validator sets: 30% of the thorough runs, 15% of the quick runs (N >= 28 is where a
	// seed can run out of positions before enough committers are found)
	pBig := 0.15
	if tier == "thorough" {
		pBig = 0.3
	}
	if rng.Chance(pBig) {
		mode = 1
		n = rng.Range(11, 46)
		maxn = 46
		if rng.Chance(0.5) {
			n = rng.Range(31, 46)
		}
	}
	p.Cfg["n"], p.Cfg["mode"], p.Cfg["maxn"] = int64(n), mode, int64(maxn)
	p.Cfg["blocks"] = int64(rng.Range(1, 3))
	// C as GenesisChainConfig produces it (N/3) in most runs; the textual floor((N-1)/3) in the rest.
	if rng.Chance(0.3) {
		p.Cfg["cmode"] = 1
	}
	steps := rng.Range(6, 14)
	if tier == "thorough" {
		steps = rng.Range(10, 30)
	}
	for i := 0; i < steps; i++ {
		if mode != 0 && rng.Chance(0.3) {
			p.Steps = append(p.Steps, kernel.Step{Op: "cfg", A: []int64{int64(rng.Intn(5)), rng.Int63() % 1000003}})
		}
		kind := int64(1)
		switch {
		case mode == 0 && rng.Chance(0.6):
			kind = 0
		case rng.Chance(0.2):
			kind = 2
		}
		p.Steps = append(p.Steps, kernel.Step{Op: "eval", A: []int64{kind, rng.Int63() % 1000003}})
	}
	return p
}

func init() {
	kernel.Register(&kernel.Check{
		ID: "C40", Level: "exploration", Engine: "E4 round (participant selection)",
		Rule:        "a run fixes a validator set (N=4..10; 15% of quick and 30% of thorough runs use 11..46) and walks it through membership changes (add/remove peer, non-contiguous indices, permuted pool order, new config height), rebuilding the chain config with the real GenesisChainConfig each time; each eval step takes one seed (VRF of a real sealed block of a chain.World ledger, plan-random VRF bytes in a synthetic previous block, or a structured raw seed) and evaluates selection on 3 independently built nodes x 8 times, half of them on codec copies of block and config; non-trivial = at least one selection evaluated; distinct = digest of the selected lists",
		Real:        []string{"consensus/vbft buildParticipantConfig, calcParticipantPeers, calcParticipant, getParticipantSelectionSeed (through export_verif.go)", "consensus/vbft/config GenesisChainConfig (pos table, shuffle), ChainConfig JSON codec", "vbft.Block Serialize/Deserialize", "core/genesis + ledger for runs that take seeds and the configuration from a real chain"},
		Stub:        []string{"governance pool contents are synthesised (peer lists with increasing, possibly sparse indices in arbitrary order, as GetPeersConfig returns them from a Go map); the VBFT Server is not run"},
		Assumptions: []string{"C is taken from the configuration under test: GenesisChainConfig sets C = N/3 (not floor((N-1)/3)); both are exercised", "seeds reachable through getParticipantSelectionSeed are SHA-512 outputs; structured raw seeds are evaluated through calcParticipantPeers directly and a raw seed without any selection is counted, not alarmed", "'exclude the leading proposers' is read as: the first C of the C+1 proposers do not reappear among endorsers or committers"},
		QuickRuns:   6000, ThoroughRuns: 400000, QuickCap: 40, ThoroughCap: 700,
		RequiredProbes: []string{"seed_from_real_sealed_block", "seed_from_plan_vrf_bytes", "raw_seed_selection", "config_from_real_genesis_block", "peer_removed", "peer_added", "indices_non_contiguous", "peer_list_permuted"},
		Generate:       genC40, Execute: execC40,
	})
}
