package vbftround

import (
	"fmt"
	"sort"

	"github.com/polynetwork/poly/common"
)

// Reference model of C41, written from the property text:
//
//   "A round is treated as endorsed for a proposal only when more than C distinct participants
//    endorsed it, and as committed only when enough distinct participants support the same
//    proposal (N - floor((N-1)/3) - 1 signers in commit messages, or more than N-1-C
//    endorsers). Repeated or conflicting messages from one participant never count twice, and
//    a sealed block carries exactly one signature per distinct supporting participant."
//
// The model keeps, per receiving node and block number, every piece of support evidence that
// reached the node: who (which member's key) signed which block hash, for which proposer and
// which variant (full block / empty block). A "proposal" is (proposer, empty?, block hash);
// its supporters are the DISTINCT members with a valid signature over that hash.

type vote struct {
	src      int            // 0 proposal, 1 endorse msg, 2 committer of a commit msg, 3 endorser signature embedded in a commit msg
	claimed  uint32         // participant index written in the message
	signer   int64          // index of the member whose key validates the signature over hash, -1 if none
	proposer uint32         // proposer the vote names
	empty    bool           // vote for the proposer's empty block
	hash     common.Uint256 // block hash the signature is over
	inCommit bool           // evidence carried by a commit message
}

type roundModel struct {
	votes []vote
}

func (m *roundModel) add(v vote) { m.votes = append(m.votes, v) }

// Levels of strictness. 0 is the property text; 1..3 are explanatory relaxations used only to
// name the cause of a violation (they never make a violation disappear).
const (
	lvStrict     = 0 // distinct valid signers of one block hash
	lvAnyHash    = 1 // ... of any block hash attributed to (proposer, empty?)
	lvClaimed    = 2 // ... trusting the index written in the message, signatures unchecked
	lvEmptyMerge = 3 // ... and ignoring which proposer's empty block / whether empty at all
)

// supporters returns the largest set of distinct supporters of (p, empty) at the given level,
// counting only commit-message evidence if commitOnly.
func (m *roundModel) supporters(p uint32, empty bool, level int, commitOnly bool) map[int64]bool {
	if level == lvStrict {
		byHash := map[common.Uint256]map[int64]bool{}
		for _, v := range m.votes {
			if v.proposer != p || v.empty != empty || v.signer < 0 || (commitOnly && !v.inCommit) {
				continue
			}
			if byHash[v.hash] == nil {
				byHash[v.hash] = map[int64]bool{}
			}
			byHash[v.hash][v.signer] = true
		}
		// largest set; ties broken by the members of the set (block hashes differ between
		// executions of one plan, so they must not decide anything observable)
		var best map[int64]bool
		bestKey := ""
		for _, set := range byHash {
			k := fmt.Sprint(setStr(set))
			if best == nil || len(set) > len(best) || (len(set) == len(best) && k < bestKey) {
				best, bestKey = set, k
			}
		}
		if best == nil {
			best = map[int64]bool{}
		}
		return best
	}
	out := map[int64]bool{}
	for _, v := range m.votes {
		if v.proposer != p || (commitOnly && !v.inCommit) {
			continue
		}
		if level < lvEmptyMerge && v.empty != empty {
			continue
		}
		if level == lvAnyHash {
			if v.signer >= 0 {
				out[v.signer] = true
			}
		} else {
			out[int64(v.claimed)] = true
		}
	}
	return out
}

// supportersOfHash: distinct valid signers of exactly this block hash for (p, empty).
func (m *roundModel) supportersOfHash(p uint32, empty bool, h common.Uint256) map[int64]bool {
	out := map[int64]bool{}
	for _, v := range m.votes {
		if v.proposer == p && v.empty == empty && v.hash == h && v.signer >= 0 {
			out[v.signer] = true
		}
	}
	return out
}

// anyEmpty: distinct (claimed) participants with an empty-block vote for any proposer.
func (m *roundModel) anyEmpty(commitOnly bool) map[int64]bool {
	out := map[int64]bool{}
	for _, v := range m.votes {
		if v.empty && (!commitOnly || v.inCommit) {
			out[int64(v.claimed)] = true
		}
	}
	return out
}

// endorsedOK: the text's condition for "the round is endorsed for (p, empty)".
func (m *roundModel) endorsedOK(p uint32, empty bool, C uint32, level int) bool {
	if level == lvEmptyMerge && empty {
		return uint32(len(m.anyEmpty(false))) > C
	}
	return uint32(len(m.supporters(p, empty, level, false))) > C
}

// committedOK: the text's condition for "the round is committed for (p, empty)".
func (m *roundModel) committedOK(p uint32, empty bool, C, N uint32, level int) bool {
	need := N - (N-1)/3 - 1
	if level == lvEmptyMerge {
		if uint32(len(m.supporters(p, empty, level, true))) >= need {
			return true
		}
		// the pool's endorse-signature rule without its flaws: a non-empty endorse quorum for p,
		// the empty variant chosen when more than N-1-C distinct participants voted empty at all
		return uint32(len(m.supporters(p, false, lvClaimed, false))) > N-1-C && (!empty || uint32(len(m.anyEmpty(false))) > N-1-C)
	}
	if uint32(len(m.supporters(p, empty, level, true))) >= need {
		return true
	}
	return uint32(len(m.supporters(p, empty, level, false))) > N-1-C
}

var levelNames = map[int]string{lvAnyHash: "mixed-block-hashes", lvClaimed: "unverified-votes", lvEmptyMerge: "merged-empty-flag"}

// classify names the weakest relaxation under which cond holds ("below-quorum" if none).
func classify(cond func(level int) bool) string {
	for _, lv := range []int{lvAnyHash, lvClaimed, lvEmptyMerge} {
		if cond(lv) {
			return levelNames[lv]
		}
	}
	return "below-quorum"
}

func setStr(s map[int64]bool) []int64 {
	out := make([]int64, 0, len(s))
	for k := range s {
		out = append(out, k)
	}
	sort.Slice(out, func(i, j int) bool { return out[i] < out[j] })
	return out
}
