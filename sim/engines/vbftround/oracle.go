package vbftround

import (
	"fmt"
	"math"
	"sort"

	"github.com/polynetwork/poly/consensus/vbft"
)

// ---- decisions of the pool and when they are a function of the pool state ----------------
//
// endorseDone and commitDone iterate Go maps and return at the first quorum they meet. When a
// pool state holds more than one quorum (e.g. for a block and for the empty block), the answer
// depends on map iteration order, which differs between processes (per-map hash seed): two
// replicas with identical messages may decide differently. That is reported (as a C16 matter),
// but nothing in the run may then depend on the answer, or the run would stop being a pure
// function of its plan. The harness therefore derives from the pool's records (a deterministic
// function of the messages received) whether a state is ambiguous; in ambiguous states the
// answer is not used (honest participants wait, the answer-based oracle is skipped); the
// record-based oracle below runs in every state.

type decision struct {
	p    uint32
	fe   bool
	done bool
}

type poolView struct {
	sigs     map[uint32][]vbft.VerifEndorseSig
	endorser []uint32 // sorted keys of sigs
	commits  []vbft.VerifCommitView
}

func (c *c41) view(r *part, blk uint32) *poolView {
	v := &poolView{sigs: r.vn.EndorseSigsView(blk), commits: r.vn.CommitMsgsView(blk)}
	for e := range v.sigs {
		v.endorser = append(v.endorser, e)
	}
	sort.Slice(v.endorser, func(i, j int) bool { return v.endorser[i] < v.endorser[j] })
	return v
}

// counts: per proposer the number of endorsers holding a non-empty record for it; the number
// of empty records (per endorser) and the proposers they name.
func (v *poolView) counts() (nonEmpty map[uint32]uint32, empties uint32, emptyNames []uint32) {
	nonEmpty = map[uint32]uint32{}
	names := map[uint32]bool{}
	for _, e := range v.endorser {
		for _, s := range v.sigs[e] {
			if s.ForEmpty {
				empties++
				names[s.EndorsedProposer] = true
			} else {
				nonEmpty[s.EndorsedProposer]++
			}
		}
	}
	for p := range names {
		emptyNames = append(emptyNames, p)
	}
	sort.Slice(emptyNames, func(i, j int) bool { return emptyNames[i] < emptyNames[j] })
	return
}

func sortedKeys(m map[uint32]uint32) []uint32 {
	out := make([]uint32, 0, len(m))
	for k := range m {
		out = append(out, k)
	}
	sort.Slice(out, func(i, j int) bool { return out[i] < out[j] })
	return out
}

// endorseCandidates: the answers endorseDone can give for these records under some iteration order.
func (v *poolView) endorseCandidates(C uint32) []decision {
	ne, empties, names := v.counts()
	var out []decision
	for _, p := range sortedKeys(ne) {
		if ne[p] > C {
			out = append(out, decision{p, false, true})
		}
	}
	if empties > C {
		for _, p := range names {
			out = append(out, decision{p, true, true})
		}
	}
	return out
}

// phase1Decides: does the commit-message rule (getCommitConsensus: slice order, hence a
// function of the arrival order) reach its threshold? Only whether it does is needed here:
// then commitDone's answer does not depend on map order.
func (v *poolView) phase1Decides(N uint32) bool {
	signers := map[uint32]map[uint32]bool{}
	for _, cm := range v.commits {
		if signers[cm.Proposer] == nil {
			signers[cm.Proposer] = map[uint32]bool{}
		}
		signers[cm.Proposer][cm.Committer] = true
		for _, e := range cm.Endorsers {
			signers[cm.Proposer][e] = true
		}
		if uint32(len(signers[cm.Proposer]))+1 >= N-(N-1)/3 {
			return true
		}
	}
	return false
}

// emptyWeight is how often commitDone's endorse-signature rule adds one empty vote of a
// participant that is not an endorser of the round to its emptyCnt: block_pool.go has a
// separate loop for such participants in front of the general loop. The value is measured
// once per process on a scratch pool (measureEmptyWeight), not assumed, so that the analysis
// of possible answers stays exact whether or not that loop is there.
var emptyWeight uint32

// measureEmptyWeight feeds a scratch pool N-C non-empty records for one proposer and N-1-C
// empty records, all under indices that are no endorsers. Counting every empty vote once, the
// empty total never exceeds N-1-C, so commitDone can only answer "not empty"; counting them
// twice it answers "empty" under most iteration orders.
func (c *c41) measureEmptyWeight() {
	if emptyWeight != 0 {
		return
	}
	nd, err := c.w.NewNode("probe")
	if err != nil {
		panic(err)
	}
	nd.Use()
	vn, err := vbft.NewVerifNode(c.parts[0].acct, nd.L, c.cfg, 64)
	if err != nil {
		panic(err)
	}
	vn.SetParticipantConfig(c.parts[0].vn.ParticipantConfig())
	Cq := c.N - 1 - c.C
	blk := c.blk
	feed := func(idx uint32, empty bool) {
		e := wEndorse{Endorser: idx, EndorsedProposer: 1, BlockNum: blk, EndorseForEmpty: empty, ProposerSig: []byte{1}, EndorserSig: []byte{2}}
		msg, _, err := remake(vbft.BlockEndorseMessage, &e)
		if err != nil {
			panic(err)
		}
		if err := vn.Feed(msg); err != nil {
			panic(err)
		}
	}
	for i := uint32(0); i <= Cq; i++ {
		feed(2000+i, false)
	}
	for i := uint32(0); i < Cq; i++ {
		feed(3000+i, true)
	}
	emptyWeight = 1
	for i := 0; i < 600; i++ {
		p, fe, done := vn.CommitDone(blk, c.C, c.N)
		if !done || p != 1 {
			panic(fmt.Sprintf("scratch pool: unexpected commitDone answer (%d,%v,%v)", p, fe, done))
		}
		if fe {
			emptyWeight = 2
			break
		}
	}
	c.w.Forget(nd)
}

// commitReach lists the answers the endorse-signature rule of commitDone (the map-order
// dependent part) can give for these records under some iteration order, when the
// commit-message rule does not decide first. The rule: iterate endorsers; a non-endorser's
// empty votes are added to emptyCnt in a first loop and again in the general loop; the first
// proposer whose non-empty count exceeds N-1-C is chosen, with empty = (emptyCnt > N-1-C) at
// that moment (emptyWeight says whether the first loop is there). For a proposer p, the adversary (map order) visits N-C members holding a p
// record and decides which other endorsers come before them.
func (c *c41) commitReach(r *part, blk uint32, v *poolView) []decision {
	return c.commitReachW(r, blk, v, emptyWeight)
}

// commitReachW: commitReach for a given weight of a non-endorser's empty vote.
func (c *c41) commitReachW(r *part, blk uint32, v *poolView, weight uint32) []decision {
	if v.phase1Decides(c.N) {
		return nil
	}
	Cq := c.N - 1 - c.C
	ne, _, _ := v.counts()
	var out []decision
	for _, p := range sortedKeys(ne) {
		if ne[p] <= Cq {
			continue
		}
		// per endorser: full = empty weight it contributes when visited completely;
		// partial = what it contributes when it is the visit at which p crosses
		type contrib struct{ full, partial uint32 }
		var members []contrib
		var othersFull uint32
		for _, e := range v.endorser {
			pre := uint32(0)
			if !r.vn.IsEndorser(blk, e) {
				pre = weight - 1
			}
			var full, partial uint32
			hasP, afterP := false, false
			for _, s := range v.sigs[e] {
				if s.ForEmpty {
					full += 1 + pre
					partial += pre
					if !afterP {
						partial++
					}
				} else if s.EndorsedProposer == p {
					hasP, afterP = true, true
				}
			}
			if hasP {
				members = append(members, contrib{full, partial})
			} else {
				othersFull += full
			}
		}
		k := int(Cq) // members visited completely before the crossing one
		if len(members) < k+1 {
			continue
		}
		maxE, minE := uint32(0), uint32(math.MaxUint32)
		for last := range members {
			var rest []uint32
			for i, m := range members {
				if i != last {
					rest = append(rest, m.full)
				}
			}
			sort.Slice(rest, func(i, j int) bool { return rest[i] < rest[j] })
			lo, hi := members[last].partial, members[last].partial+othersFull
			for i := 0; i < k; i++ {
				lo += rest[i]
				hi += rest[len(rest)-1-i]
			}
			// members beyond the k+1 visited ones may also be visited before the crossing only
			// if they do not hold a p record - they all do, so they are not
			if hi > maxE {
				maxE = hi
			}
			if lo < minE {
				minE = lo
			}
		}
		if minE <= Cq {
			out = append(out, decision{p, false, true})
		}
		if maxE > Cq {
			out = append(out, decision{p, true, true})
		}
	}
	return out
}

const confirmK = 6

// answer returns the pool's decision if it is a function of the pool state.
func (c *c41) endorseAnswer(r *part, blk uint32, v *poolView) (d decision, usable bool) {
	cands := v.endorseCandidates(c.C)
	if len(cands) > 1 {
		c.noteAmbiguous("endorseDone", r, blk, cands)
		c.crossCheck("endorse", cands, func() (uint32, bool, bool) { return r.vn.EndorseDone(blk, c.C) })
		return decision{}, false
	}
	return c.sampled("endorse-done", r, blk, func() (uint32, bool, bool) { return r.vn.EndorseDone(blk, c.C) })
}

// sampled asks the pool several times in a state the analysis found unambiguous. The answers
// agree on a tree whose decision rules are the ones analysed; if they do not (a changed rule),
// every answer seen is checked against the model and none is used.
func (c *c41) sampled(what string, r *part, blk uint32, f func() (uint32, bool, bool)) (decision, bool) {
	var seen []decision
	for i := 0; i <= confirmK; i++ {
		p, fe, done := f()
		d := decision{p, fe, done}
		if !done {
			d = decision{}
		}
		known := false
		for _, q := range seen {
			known = known || q == d
		}
		if !known {
			seen = append(seen, d)
		}
		if i == 0 && !done {
			break // "not done" does not depend on the iteration order
		}
	}
	if len(seen) == 1 {
		return seen[0], true
	}
	c.run.Probe("unexpected_instability")
	mod := c.model(r.pos, blk)
	for _, d := range seen {
		if !d.done {
			continue
		}
		ok := mod.endorsedOK(d.p, d.fe, c.C, lvStrict)
		if what == "commit-done" {
			ok = mod.committedOK(d.p, d.fe, c.C, c.N, lvStrict)
		}
		if !ok {
			c.quorumFail(what, r, blk, d, mod)
		}
	}
	return decision{}, false
}

func (c *c41) commitAnswer(r *part, blk uint32, v *poolView) (d decision, usable bool) {
	if reach := c.commitReach(r, blk, v); len(reach) > 1 {
		c.noteAmbiguous("commitDone", r, blk, reach)
		c.crossCheck("commit", reach, func() (uint32, bool, bool) { return r.vn.CommitDone(blk, c.C, c.N) })
		return decision{}, false
	}
	return c.sampled("commit-done", r, blk, func() (uint32, bool, bool) { return r.vn.CommitDone(blk, c.C, c.N) })
}

// crossCheck samples the pool's answer in an ambiguous state: every sampled answer must be
// one the harness' analysis lists as possible. Only counters are touched (sampling is not
// reproducible), nothing in the trace.
func (c *c41) crossCheck(what string, possible []decision, f func() (uint32, bool, bool)) {
	seen := map[decision]bool{}
	for i := 0; i < 16; i++ {
		p, fe, done := f()
		d := decision{p, fe, done}
		ok := false
		for _, q := range possible {
			ok = ok || q == d
		}
		if !ok {
			c.run.Probe("analysis_missed_a_possible_" + what + "_answer")
		}
		seen[d] = true
	}
	if len(seen) > 1 {
		c.run.Probe(what + "_answer_observed_to_vary")
	}
}

// noteAmbiguous records (once per run and kind) that the pool's answer is not a function of
// its state here: two honest pools holding the same messages (even received in the same order)
// can act on different answers.
func (c *c41) noteAmbiguous(what string, r *part, blk uint32, cands []decision) {
	c.run.Probe(what + "_answer_depends_on_map_order")
	detail := ""
	if len(cands) > 1 {
		detail = fmt.Sprintf(" (possible answers include proposer %d empty=%v and proposer %d empty=%v)", cands[0].p, cands[0].fe, cands[1].p, cands[1].fe)
	}
	if what == "endorseDone" {
		c.fail("endorse-decision-depends-on-map-order", "node %d block %d (N=%d C=%d): the pool's records hold more than one endorse quorum and endorseDone returns whichever its Go map iteration meets first%s: honest committers holding identical messages commit to different proposals", r.idx, blk, c.N, c.C, detail)
		return
	}
	c.fail("commit-decision-depends-on-map-order", "node %d block %d (N=%d C=%d): commitDone's endorse-signature rule has more than one possible answer for the pool's records%s - the proposer and/or the empty flag (emptyCnt > N-1-C at the moment the proposer's count crosses) depend on Go map iteration order: two honest pools holding identical messages can seal different blocks", r.idx, blk, c.N, c.C, detail)
}

// ---- oracle -------------------------------------------------------------------------------

// oracle runs after every message that reached r's pool for block blk.
func (c *c41) oracle(r *part, blk uint32) {
	run := c.run
	mod := c.model(r.pos, blk)
	C, N := c.C, c.N
	v := c.view(r, blk)
	// 1. bookkeeping: one record per (endorser, proposer, empty?), one empty record per
	// endorser, one commit per committer ("repeated or conflicting messages never count twice")
	for _, e := range v.endorser {
		seen := map[string]bool{}
		empties := 0
		for _, s := range v.sigs[e] {
			k := fmt.Sprintf("%d/%v", s.EndorsedProposer, s.ForEmpty)
			if seen[k] {
				c.fail("pool-counts-participant-twice", "node %d block %d: endorser %d is recorded twice for proposer %d (empty=%v): a repeated message raised a count by more than one", r.idx, blk, e, s.EndorsedProposer, s.ForEmpty)
				return
			}
			seen[k] = true
			if s.ForEmpty {
				empties++
			}
		}
		if empties > 1 {
			c.fail("pool-counts-participant-twice", "node %d block %d: endorser %d is recorded with %d empty-block votes", r.idx, blk, e, empties)
			return
		}
	}
	cm := map[uint32]bool{}
	for _, t := range v.commits {
		if cm[t.Committer] {
			c.fail("pool-counts-participant-twice", "node %d block %d: two commit messages of committer %d are held", r.idx, blk, t.Committer)
			return
		}
		cm[t.Committer] = true
	}
	// 2. record-based check (every state): whenever the pool's own counts amount to a quorum,
	// the text's quorum must exist.
	ne, empties, names := v.counts()
	for _, p := range sortedKeys(ne) {
		if ne[p] > C && !mod.endorsedOK(p, false, C, lvStrict) {
			c.quorumFail("endorse-done", r, blk, decision{p, false, true}, mod)
		}
	}
	// The Server evaluates commitDone when a commit message arrives (service.go:1390), at the
	// commit timeout of a node that has committed (1822-1851) and when a round starts with
	// stored commit messages (705): the commit decision is checked in exactly those states.
	commitEvaluable := len(v.commits) > 0 || r.vn.CommittedForBlock(blk)
	if commitEvaluable {
		for _, d := range c.commitReach(r, blk, v) {
			if !mod.committedOK(d.p, d.fe, C, N, lvStrict) {
				c.quorumFail("commit-done", r, blk, d, mod)
			}
		}
	}
	if empties > C {
		ok := false
		for _, p := range names {
			ok = ok || mod.endorsedOK(p, true, C, lvStrict)
		}
		if !ok {
			c.quorumFail("endorse-done", r, blk, decision{names[0], true, true}, mod)
		}
	}
	// 3. answer-based check, where the answer is a function of the state
	ed, eok := c.endorseAnswer(r, blk, v)
	if eok && ed.done {
		if !mod.endorsedOK(ed.p, ed.fe, C, lvStrict) {
			c.quorumFail("endorse-done", r, blk, ed, mod)
		} else {
			if uint32(len(mod.supporters(ed.p, ed.fe, lvStrict, false))) == C+1 {
				run.Probe("endorse_done_exactly_C_plus_1")
			}
			if ed.fe {
				run.Probe("endorse_done_for_empty")
			}
		}
	}
	var cd decision
	cok := false
	if commitEvaluable {
		cd, cok = c.commitAnswer(r, blk, v)
	}
	if cok && cd.done {
		if !mod.committedOK(cd.p, cd.fe, C, N, lvStrict) {
			c.quorumFail("commit-done", r, blk, cd, mod)
		} else {
			need := N - (N-1)/3 - 1
			nc := uint32(len(mod.supporters(cd.p, cd.fe, lvStrict, true)))
			byCommit := nc >= need
			byEndorse := uint32(len(mod.supporters(cd.p, cd.fe, lvStrict, false))) > N-1-C
			if byCommit && nc == need {
				run.Probe("commit_done_exactly_at_threshold")
			}
			if byEndorse && !byCommit {
				run.Probe("commit_by_endorse_sigs")
			}
			if cd.fe {
				run.Probe("empty_block_decision")
			}
		}
	}
	run.State([]byte(fmt.Sprintf("%d/%d/%v/%v/%v/%v/%d", N, len(mod.votes), ed, eok, cd, cok, len(v.endorser))))
}

// quorumFail reports a decision (or a count amounting to one) that the text does not allow.
func (c *c41) quorumFail(what string, r *part, blk uint32, d decision, mod *roundModel) {
	C, N := c.C, c.N
	if what == "endorse-done" {
		key := quorumKey(what, d.fe, classify(func(lv int) bool { return mod.endorsedOK(d.p, d.fe, C, lv) }))
		c.fail(key, "node %d block %d: the pool treats proposer %d empty=%v as endorsed (C=%d, N=%d) but only %v distinct members validly endorsed one such block (text: more than C); trusting the indices written in messages: %v; empty votes for any proposer: %v",
			r.idx, blk, d.p, d.fe, C, N, setStr(mod.supporters(d.p, d.fe, lvStrict, false)), setStr(mod.supporters(d.p, d.fe, lvClaimed, false)), setStr(mod.anyEmpty(false)))
		return
	}
	key := quorumKey(what, d.fe, classify(func(lv int) bool { return mod.committedOK(d.p, d.fe, C, N, lv) }))
	if key == "commit-done-empty-below-quorum" {
		// that key names one mechanism: a non-endorser's empty vote counted twice (possible only
		// if the pool does so, and only where counting once would not give this answer)
		once := false
		for _, q := range c.commitReachW(r, blk, c.view(r, blk), 1) {
			once = once || q == d
		}
		if emptyWeight != 2 || once {
			key = "commit-done-empty-miscount"
		}
	}
	c.fail(key, "node %d block %d: the pool treats proposer %d empty=%v as committed (C=%d, N=%d) but distinct valid signers in commit messages are %v (text needs %d) and distinct valid endorsers are %v (text needs more than %d); trusting the indices written in messages: commit signers %v, endorsers %v; empty votes for any proposer %v",
		r.idx, blk, d.p, d.fe, C, N, setStr(mod.supporters(d.p, d.fe, lvStrict, true)), N-(N-1)/3-1, setStr(mod.supporters(d.p, d.fe, lvStrict, false)), N-1-C,
		setStr(mod.supporters(d.p, d.fe, lvClaimed, true)), setStr(mod.supporters(d.p, d.fe, lvClaimed, false)), setStr(mod.anyEmpty(false)))
}
