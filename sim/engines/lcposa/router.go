package lcposa

import (
	"encoding/json"
	"fmt"
	"math/big"

	ecommon "github.com/ethereum/go-ethereum/common"
	etypes "github.com/ethereum/go-ethereum/core/types"
	"github.com/polynetwork/poly/account"
	"github.com/polynetwork/poly/core/types"
	hscom "github.com/polynetwork/poly/native/service/header_sync/common"

	"polysim/chain"
	"polysim/engines/e1"
)

// extraInfo is the ExtraInfo of the registered side chain as the router expects it.
func (c *simChain) extraInfo() []byte {
	if c.v.bor {
		return mustJSON(map[string]interface{}{"Sprint": uint64(borSprint), "Period": uint64(blockPeriod), "ProducerDelay": uint64(borDelay), "BackupMultiplier": uint64(borBackup), "HeimdallPolyChainID": uint64(0)})
	}
	m := map[string]interface{}{"ChainID": big.NewInt(evmChainID)}
	if c.v.period {
		m["Period"] = uint64(blockPeriod)
	}
	if c.v.clique {
		m["Epoch"] = c.epoch
	}
	return mustJSON(m)
}

func (c *simChain) register(h *e1.Harness) error {
	ccmc := c.bytes("ccmc", 0, 20)
	return h.RegisterChain(c.polyID, c.v.router, c.v.name, 1, ccmc, c.extraInfo())
}

type heightAndValidators struct {
	Height     *big.Int
	Validators []ecommon.Address
	Hash       *ecommon.Hash
}

// genesisBytes is the trust-root payload: for the BSC family the epoch header plus the set
// that was in effect before it; for MSC (clique) just the checkpoint header.
// pretty=true re-encodes the same data with different JSON whitespace.
func (c *simChain) genesisBytes(pretty bool) []byte {
	root := c.nodes[0]
	var v interface{}
	if c.v.bor {
		type val struct {
			ID      uint64          `json:"ID"`
			Address ecommon.Address `json:"signer"`
			Power   int64           `json:"power"`
			Accum   int64           `json:"accum"`
		}
		var vals []*val
		for i, a := range c.prevSet {
			vals = append(vals, &val{ID: uint64(i + 1), Address: a, Power: 10})
		}
		v = map[string]interface{}{
			"Header":   root.hdr,
			"Snapshot": map[string]interface{}{"hash": root.hash, "validatorSet": map[string]interface{}{"validators": vals, "proposer": vals[c.propIdx]}},
		}
	} else if c.v.clique {
		v = root.hdr
	} else {
		v = map[string]interface{}{
			"Header":         root.hdr,
			"PrevValidators": []heightAndValidators{{Height: new(big.Int).SetUint64(c.rootNo - c.epoch), Validators: c.prevSet}},
		}
	}
	if pretty {
		b, err := json.MarshalIndent(v, "", "  ")
		if err != nil {
			panic(err)
		}
		return b
	}
	return mustJSON(v)
}

func (c *simChain) genesisTx(h *e1.Harness, payload []byte) *types.Transaction {
	return h.Operator(chain.HeaderSync, hscom.SYNC_GENESIS_HEADER, chain.Args(&hscom.SyncGenesisHeaderParam{ChainID: c.polyID, GenesisHeader: payload}))
}

func (c *simChain) headersTx(h *e1.Harness, relayer *account.Account, ns []*node) *types.Transaction {
	p := &hscom.SyncBlockHeaderParam{ChainID: c.polyID, Address: relayer.Address}
	for _, n := range ns {
		p.Headers = append(p.Headers, n.raw)
	}
	return h.Signed(chain.HeaderSync, hscom.SYNC_BLOCK_HEADER, chain.Args(p), relayer)
}

// ---- reading the router's stored state (key layout of header_sync/<router>) ----

func (c *simChain) keyHeader(hash ecommon.Hash) [][]byte {
	return [][]byte{[]byte(hscom.HEADER_INDEX), le64(c.polyID), hash[:]}
}

type storedHeader struct {
	Header        json.RawMessage `json:"header"`
	DifficultySum *big.Int        `json:"difficultySum"`
	Bor           *struct {
		Header json.RawMessage
	} `json:"headerWithOptionalSnap"`
}

type lcState struct {
	v e1.View
	c *simChain
}

func (s lcState) has(hash ecommon.Hash) bool {
	return s.v.Has(chain.HeaderSync, s.c.keyHeader(hash)...)
}

// record decodes the stored header record: hash of the stored header content and its total difficulty.
func (s lcState) record(hash ecommon.Hash) (contentHash ecommon.Hash, td *big.Int, err error) {
	raw := s.v.Get(chain.HeaderSync, s.c.keyHeader(hash)...)
	if raw == nil {
		return contentHash, nil, fmt.Errorf("absent")
	}
	var rec storedHeader
	if err = json.Unmarshal(raw, &rec); err != nil {
		return
	}
	if s.c.v.bor && rec.Bor != nil {
		rec.Header = rec.Bor.Header
	}
	var hdr etypes.Header
	if err = json.Unmarshal(rec.Header, &hdr); err != nil {
		return contentHash, nil, fmt.Errorf("stored header: %v", err)
	}
	return hdr.Hash(), rec.DifficultySum, nil
}

func (s lcState) height() (uint64, bool) {
	raw := s.v.Get(chain.HeaderSync, []byte(hscom.CURRENT_HEADER_HEIGHT), le64(s.c.polyID))
	if len(raw) != 8 {
		return 0, false
	}
	var v uint64
	for i := 7; i >= 0; i-- {
		v = v<<8 | uint64(raw[i])
	}
	return v, true
}

func (s lcState) mainChain(height uint64) (ecommon.Hash, bool) {
	raw := s.v.Get(chain.HeaderSync, []byte(hscom.MAIN_CHAIN), le64(s.c.polyID), le64(height))
	if raw == nil {
		return ecommon.Hash{}, false
	}
	return ecommon.BytesToHash(raw), true
}

func (s lcState) genesisStored() bool {
	return s.v.Has(chain.HeaderSync, []byte(hscom.GENESIS_HEADER), le64(s.c.polyID))
}
