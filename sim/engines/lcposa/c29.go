package lcposa

import (
	"crypto/sha256"
	"fmt"
	"math/big"
	"os"
	"runtime/debug"
	"sort"
	"strings"

	ecommon "github.com/ethereum/go-ethereum/common"
	"github.com/polynetwork/poly/core/types"
	hscom "github.com/polynetwork/poly/native/service/header_sync/common"

	"polysim/chain"
	"polysim/engines/e1"
	"polysim/kernel"
)

const privateNet = 77 // neither main net nor test net: no height gates (HSC/Bytom), no test-net patches

func init() {
	rule := "Each run drives ONE router of the PoSA family, chosen round-robin (rotated) by run index from [" + strings.Join(routerNames(), " ") + "] " +
		"(Polygon Bor only inside one span and sprint: membership in the snapshot set of the trust root, proposer/backup difficulty N-succession, extra layout, parent/height, fork choice; it has no recent-signer rule, and sprint-end headers / span changes need Heimdall proofs and are not generated). A plan is: register the chain, install the trust root (epoch header), then steps " +
		"hon/fork (extend a tip / branch off up to 4 blocks behind a tip of the simulated chain with a validly sealed header; validator sets of 3-7 secp256k1 keys out of a universe of 9, " +
		"epoch length 4-8, sets announced by epoch blocks or - MSC - changed by clique votes), bad (one faulty header of a given kind), sub (a relayer transaction carrying 1-10 headers, " +
		"in or out of order, with gaps and duplicates), retry (missing honest headers one per transaction), cut (commit a poly block), restart (clean node restart). After every block every generated header is looked up in the router's stored state; " +
		"whatever is stored is judged by the reference tree (parent stored, height, extra layout, sealer in the set in effect on that fork, recent-signer window floor(N/2), in-turn difficulty 2 / out-of-turn 1), " +
		"the stored total difficulty is recomputed and the canonical index must lead to a stored header of maximal total difficulty. Non-trivial = at least 5 honest headers stored and at least one faulty header " +
		"submitted while its parent was stored; distinct = digest of (router, per-header kind/outcome sequence, canonical head)."
	req := []string{"epoch_change_applied", "fork_reorg_by_difficulty", "side_branch_stored", "trust_root_installed", "duplicate"}
	for _, k := range faultKinds {
		req = append(req, k, "rejected:"+k)
	}
	for _, v := range variants {
		req = append(req, "honest_majority_accepted:"+v.name) // per router: most honest headers were stored in at least one run
	}
	kernel.Register(&kernel.Check{
		ID: "C29", Level: "exploration", Engine: "E1 lightclient-posa (lcposa)", Rule: rule,
		Real: []string{"native/service/header_sync/{bsc,heco,hsc,pixiechain,bytom,msc,polygon(bor)} (SyncGenesisHeader, SyncBlockHeader, seal recovery, validator tracking, fork choice)", "header_sync entrance", "side_chain_manager registration", "ledger + native runtime (e1.Harness)", "go-ethereum secp256k1 / RLP / Keccak"},
		Stub: []string{"the PoSA side chains themselves (simulated generator with real seals)", "relayer", "VBFT server / p2p (E1 producer stub)", "Heimdall spans / sprint-end validator updates of Polygon Bor (not generated)", "Harmony (cannot be built)"},
		Assumptions: []string{
			"one-directional: only stored headers are judged; acceptance completeness is a probe, not an assertion",
			"the simulated chain's protocol: Parlia (BSC, Bytom) activates an announced set floor(|old|/2) blocks after the epoch block, Congress (HECO, HSC, Pixie) at the next block, Clique (MSC) by majority votes, Bor keeps the trust root's snapshot set for the whole run (proposer fixed inside a sprint, difficulty = N - succession, backups must wait succession*BackupMultiplier seconds); recent-signer window = floor(N/2) preceding blocks as far as the light client can know them (from the trust root on)",
			"'well-formed fixed-format fields' = extra has 32 vanity bytes + 20*k (Bor 40*k) validator bytes + 65 seal bytes; validator bytes exactly on epoch blocks only for the routers that are told the epoch length (MSC checkpoints, Bor sprint ends)",
			"BSC, HECO, HSC, Pixie and Bytom are not told the epoch length: a validly sealed header carrying validator bytes at any height is an epoch block for them. This is NOT asserted against (the property does not say at which heights validator bytes may appear); the reference adopts the listed set exactly as the router does, further blocks are built on such headers, and the outcome is counted in probes validator_bytes_on_non_epoch_accepted:<router>, off_epoch_set_change_on_canonical_chain:<router>, single_validator_takeover_canonical:<router>",
			"network id 77 (private): HSC/Bytom start-height gate and test-net header patches are off; wall clock is the synctest bubble clock (all timestamps in the past)",
		},
		QuickRuns: 98, ThoroughRuns: 4900, QuickCap: 55, ThoroughCap: 850,
		RequiredProbes: req,
		Generate:       generate, Execute: execute,
	})
}

func cfgRouter(p *kernel.Plan) *variant { return variants[mod(p.C("router", 0), len(variants))] }

func generate(rng *kernel.RNG, idx int, tier string) *kernel.Plan {
	p := &kernel.Plan{Cfg: map[string]int64{}}
	p.Cfg["router"] = int64((idx + idx/len(variants)) % len(variants)) // round robin, rotated per block of runs so a wall cap does not starve the same routers
	// development / sensitivity knobs (plan generation only; Execute depends on the plan alone):
	// LCPOSA_ROUTERS=bsc,heco restricts the round-robin, LCPOSA_SKIP_KINDS=kind,kind removes fault kinds.
	if only := os.Getenv("LCPOSA_ROUTERS"); only != "" {
		var idxs []int
		for i, v := range variants {
			for _, w := range strings.Split(only, ",") {
				if w == v.name {
					idxs = append(idxs, i)
				}
			}
		}
		if len(idxs) > 0 {
			p.Cfg["router"] = int64(idxs[idx%len(idxs)])
		}
	}
	skip := "," + os.Getenv("LCPOSA_SKIP_KINDS") + ","
	p.Cfg["epoch"] = int64(4 + rng.Intn(5))
	p.Cfg["set0"] = int64(1 + rng.Intn(1000))
	p.Cfg["set1"] = int64(1 + rng.Intn(1000))
	p.Cfg["followers"] = int64(rng.Intn(3) / 2)
	target := 8 + rng.Intn(11)
	if tier == "thorough" {
		target = 12 + rng.Intn(19)
	}
	// swarm: which fault kinds exist in this run
	var kinds []int
	if !rng.Chance(0.08) {
		for i := range faultKinds {
			if rng.Chance(0.6) && !strings.Contains(skip, ","+faultKinds[i]+",") {
				kinds = append(kinds, i)
			}
		}
	}
	pBad := 0.15 + 0.35*rng.Float()
	pFork := 0.05 + 0.2*rng.Float()
	add := func(op string, a ...int64) { p.Steps = append(p.Steps, kernel.Step{Op: op, A: a}) }
	count := 1 // node 0 is the trust root
	var honest, bad, fresh []int64
	add("genesis")
	relayer := func() int64 { return int64(1 + rng.Intn(3)) }
	subChunks := func(ids []int64, max int) {
		for len(ids) > 0 {
			k := max
			if k > len(ids) {
				k = len(ids)
			}
			add("sub", append([]int64{relayer()}, ids[:k]...)...)
			ids = ids[k:]
		}
	}
	lightStreak := 0
	campaign, campaignLeft := int64(0), 0
	// prologue (most runs of routers with a recent-signer rule): three blocks right behind the
	// trust root, then recent-signer faults at chosen distances from the signer's last seal with
	// that seal on the first blocks or ON THE TRUST ROOT ITSELF: always the root's own sealer two
	// blocks after the root, plus two random (parent among root..root+3, distance 1..3) pairs
	if !variants[p.Cfg["router"]].bor && len(kinds) > 0 && rng.Chance(0.65) && !strings.Contains(skip, ",recent_signer,") {
		for i := 0; i < 3; i++ {
			add("hon", 0, int64(1+4*rng.Intn(16)+rng.Intn(2)), 0)
			honest = append(honest, int64(count))
			count++
		}
		add("sub", relayer(), 1, 2, 3)
		add("cut")
		pairs := [][2]int64{{1, 1}, {int64(rng.Intn(4)), int64(rng.Intn(3))}, {int64(rng.Intn(4)), int64(rng.Intn(3))}}
		for _, pr := range pairs {
			add("bad", int64(kindIndex("recent_signer")), -(pr[0] + 1), int64(rng.Intn(64)), pr[1])
			add("sub", relayer(), int64(count))
			bad = append(bad, int64(count))
			count++
		}
		add("cut")
	}
	for len(honest) < target {
		// the simulated validators produce blocks
		for i, n := 0, 1+rng.Intn(3); i < n && len(honest) < target; i++ {
			sealerSel := int64(rng.Intn(64))
			setSel := int64(0)
			if rng.Chance(0.6) {
				setSel = int64(1 + rng.Intn(1000))
			}
			if variants[p.Cfg["router"]].clique {
				// clique: votes must concentrate on one target to pass; a campaign lasts a few blocks
				if campaignLeft == 0 {
					campaign, campaignLeft = int64(rng.Intn(nUniverse)), 3+rng.Intn(6)
				}
				campaignLeft--
				setSel = 0
				if rng.Chance(0.75) {
					setSel = 2*campaign + 1
				}
			}
			if rng.Chance(pFork) {
				add("fork", int64(rng.Intn(12)), sealerSel, setSel)
				lightStreak = 1 + rng.Intn(4)
			} else {
				tip := int64(0)
				if lightStreak > 0 {
					tip, lightStreak = 1, lightStreak-1
				} else if rng.Chance(0.1) {
					tip = int64(rng.Intn(3))
				}
				add("hon", tip, sealerSel, setSel)
			}
			honest = append(honest, int64(count))
			fresh = append(fresh, int64(count))
			count++
		}
		var badNow []int64
		if len(kinds) > 0 && rng.Chance(pBad) {
			k := kinds[rng.Intn(len(kinds))]
			if variants[p.Cfg["router"]].clique && rng.Chance(0.3) && !strings.Contains(skip, ",early_epoch_change,") {
				k = kindIndex("early_epoch_change") // clique: sets change by votes at any block, probe the threshold often
			} else if variants[p.Cfg["router"]].clique && rng.Chance(0.3) && !strings.Contains(skip, ",wrong_checkpoint_signers,") {
				k = kindIndex("wrong_checkpoint_signers") // only clique checkpoints are verifiable: keep this kind frequent there
			}
			parentSel := int64(rng.Intn(6)) // mostly near the newest stored / generated headers
			if rng.Chance(0.2) {
				parentSel = int64(rng.Intn(80)) // anywhere, the trust root included
			}
			add("bad", int64(k), parentSel, int64(rng.Intn(64)), int64(rng.Intn(4096)))
			bad = append(bad, int64(count))
			badNow = append(badNow, int64(count))
			count++
			if faultKinds[k] == offEpochKind && !variants[p.Cfg["router"]].epochKnown() && rng.Chance(0.6) {
				// the routers that cannot know the epoch length adopt the set such a header lists:
				// let the validators of that set extend the branch (in turn, i.e. as heavy as possible)
				prev := int64(count - 1)
				for i, n := 0, 2+rng.Intn(4); i < n; i++ {
					add("hon", 0, int64(1+4*rng.Intn(16)), 0, prev)
					prev = int64(count)
					honest = append(honest, prev)
					fresh = append(fresh, prev)
					count++
				}
			}
		}
		// the relayer
		if rng.Chance(0.75) && len(fresh) > 0 {
			k := 1 + rng.Intn(4)
			if k > len(fresh) {
				k = len(fresh)
			}
			batch := append([]int64{}, fresh[:k]...)
			fresh = fresh[k:]
			switch {
			case rng.Chance(0.15) && len(batch) > 1: // out of order
				for i := len(batch) - 1; i > 0; i-- {
					j := rng.Intn(i + 1)
					batch[i], batch[j] = batch[j], batch[i]
				}
			case rng.Chance(0.12) && len(batch) > 1: // gap: the first one is lost
				batch = batch[1:]
			case rng.Chance(0.12): // duplicate inside the transaction
				batch = append(batch, batch[rng.Intn(len(batch))])
			}
			for _, b := range badNow {
				if rng.Chance(0.25) { // faulty header inside an honest batch: the whole transaction fails
					pos := rng.Intn(len(batch) + 1)
					batch = append(batch[:pos], append([]int64{b}, batch[pos:]...)...)
					badNow = nil
				}
			}
			add("sub", append([]int64{relayer()}, batch...)...)
		}
		for _, b := range badNow {
			if rng.Chance(0.7) {
				add("sub", relayer(), b)
			}
		}
		if rng.Chance(0.08) { // catch-up: everything so far, in order (duplicates for what is stored)
			subChunks(honest, 10)
			fresh = nil
		}
		if rng.Chance(0.4) {
			add("cut")
		}
		if rng.Chance(0.04) {
			add("cut")
			add("restart", int64(rng.Intn(2)))
		}
	}
	// final sweep: all honest headers in order, then every faulty header alone (its parent is
	// stored by now), then once more everything
	add("cut")
	subChunks(honest, 8)
	add("cut")
	// a relayer whose batch failed as a whole (one refused header rolls the transaction back)
	// retries the missing headers one per transaction
	add("retry", relayer())
	add("retry", relayer())
	if rng.Chance(0.3) {
		add("restart", int64(rng.Intn(2)))
	}
	for i, b := range bad {
		add("sub", relayer(), b)
		if i%5 == 4 {
			add("cut")
		}
	}
	add("cut")
	// late faults built on the newest headers the light client holds (wherever it stopped
	// following the simulated chain, this is where its view and the reference may differ)
	if len(kinds) > 0 {
		for i, n := 0, 2+rng.Intn(3); i < n; i++ {
			k := kinds[rng.Intn(len(kinds))]
			if variants[p.Cfg["router"]].clique && rng.Chance(0.4) && !strings.Contains(skip, ",early_epoch_change,") {
				k = kindIndex("early_epoch_change")
			}
			add("bad", int64(k), int64(2*rng.Intn(2)), int64(rng.Intn(64)), int64(rng.Intn(4096)))
			add("sub", relayer(), int64(count))
			bad = append(bad, int64(count))
			count++
		}
		add("cut")
	}
	if rng.Chance(0.3) {
		all := append(append([]int64{}, honest...), bad...)
		subChunks(all[len(all)/2:], 10)
		add("cut")
	}
	return p
}

type pendTx struct {
	tx    *types.Transaction
	nodes []*node
}

func execute(run *kernel.Run) {
	// nothing can be stored without a trust root and at least one relayer transaction: such a
	// plan (met while a failing plan is being minimised) holds trivially, skip building a world
	hasGenesis, hasSub := false, false
	for _, st := range run.Plan.Steps {
		hasGenesis = hasGenesis || st.Op == "genesis"
		hasSub = hasSub || (hasGenesis && st.Op == "sub")
	}
	if !hasGenesis || !hasSub {
		run.Logf("plan without trust root or without submissions after it: nothing to check")
		return
	}
	kernel.InBubble(func() { executeInBubble(run) })
}

func executeInBubble(run *kernel.Run) {
	v := cfgRouter(run.Plan)
	p := run.Plan
	epoch := uint64(4 + mod(p.C("epoch", 4)-4, 5))
	c := newSimChain(v, p.Seed, 6, epoch, p.C("set0", 1), p.C("set1", 2))
	h, err := e1.NewHarness(run, 4, mod(p.C("followers", 0), 2), privateNet, 100000)
	if err != nil {
		panic(err)
	}
	defer h.Close()
	if err := c.register(h); err != nil {
		if run.Failed() {
			return
		}
		panic(err)
	}
	run.Logf("router=%s epoch=%d root=%d prevSet=%d rootSet=%d", v.name, epoch, c.rootNo, len(c.prevSet), len(listed(c.nodes[0].hdr)))
	x := &exec{run: run, h: h, c: c, v: v}
	for i, st := range p.Steps {
		run.StepNo = i
		run.Steps++
		if !x.step(st) {
			return
		}
	}
	if len(x.pend) > 0 && !x.cut() {
		return
	}
	x.finish()
}

type exec struct {
	run              *kernel.Run
	h                *e1.Harness
	c                *simChain
	v                *variant
	pend             []*pendTx
	head             int // node index of the canonical head as last observed (-1 before the trust root)
	sig              []string
	rootInstalled    bool
	reorgs, accepted int
}

func (x *exec) fail(rule, format string, a ...interface{}) {
	x.run.Fail("C29", x.v.name+":"+rule, "[%s] "+format, append([]interface{}{x.v.name}, a...)...)
}

func (x *exec) step(st kernel.Step) bool {
	c, run := x.c, x.run
	switch st.Op {
	case "genesis":
		x.pend = append(x.pend, &pendTx{tx: c.genesisTx(x.h, c.genesisBytes(false)), nodes: []*node{c.nodes[0]}})
		return x.cut()
	case "hon":
		tips := c.tips()
		p := tips[mod(st.Arg(0), len(tips))]
		if a := st.Arg(3); a > 0 { // extend this very header if further blocks can be built on it
			for _, hn := range c.honestNodes() {
				if hn.idx == mod(a, len(c.nodes)) {
					p = hn
				}
			}
		}
		n := c.mkHonest(p, st.Arg(1), st.Arg(2))
		x.logNode(n)
	case "fork":
		tips := c.tips()
		p := tips[mod(st.Arg(0), 3)%len(tips)]
		for back := 1 + mod(st.Arg(0)/3, 4); back > 0 && p.parent >= 0; back-- {
			p = c.nodes[p.parent]
		}
		n := c.mkHonest(p, st.Arg(1), st.Arg(2))
		if !n.noop {
			run.Probe("fork_generated")
		}
		x.logNode(n)
	case "bad":
		n := c.mkBad(faultKinds[mod(st.Arg(0), len(faultKinds))], st.Arg(1), st.Arg(2), st.Arg(3))
		x.logNode(n)
	case "sub":
		var ns []*node
		for _, a := range st.A[min(1, len(st.A)):] {
			n := c.nodes[mod(a, len(c.nodes))]
			if !n.noop && n.idx != 0 {
				ns = append(ns, n)
			}
		}
		if len(ns) == 0 {
			return true
		}
		for _, n := range ns {
			n.submitted++
		}
		x.pend = append(x.pend, &pendTx{tx: c.headersTx(x.h, x.h.User(1+mod(st.Arg(0), 3)), ns), nodes: ns})
		if len(x.pend) >= 6 {
			return x.cut()
		}
	case "retry":
		// one transaction per header that the simulated validators produced, that is not stored
		// and whose parent is stored (at most 10 per step)
		if len(x.pend) > 0 && !x.cut() {
			return false
		}
		k := 0
		for _, n := range c.nodes[1:] {
			if k < 10 && !n.noop && n.kind == "honest" && !n.stored && c.nodes[n.parent].stored {
				n.submitted++
				k++
				x.pend = append(x.pend, &pendTx{tx: c.headersTx(x.h, x.h.User(1+mod(st.Arg(0), 3)), []*node{n}), nodes: []*node{n}})
				if len(x.pend) >= 5 && !x.cut() {
					return false
				}
			}
		}
		run.Logf("retry: %d headers", k)
		return x.cut()
	case "cut":
		return x.cut()
	case "restart":
		if len(x.pend) > 0 && !x.cut() {
			return false
		}
		if err := x.h.Restart(mod(st.Arg(0), 2)); err != nil {
			panic(err)
		}
		run.Logf("restart %d", mod(st.Arg(0), 2))
		return x.oracle() // nothing may change over a restart
	}
	return true
}

func (x *exec) logNode(n *node) {
	if n.noop {
		x.run.Logf("node %d %s: inapplicable", n.idx, n.kind)
		return
	}
	td := "-"
	if n.td != nil {
		td = n.td.String()
	}
	x.run.Logf("node %d %s parent=%d number=%d sealer=%x diff=%v td=%s extra=%d hash=%x broken=%v", n.idx, n.kind, n.parent, n.number, n.sealer[:4], n.hdr.Difficulty, td, len(n.hdr.Extra), n.hash[:6], n.broken)
}

// cut commits the pending relayer transactions as one poly block and runs the oracle.
func (x *exec) cut() (ok bool) {
	run, c := x.run, x.c
	if len(x.pend) == 0 {
		return true
	}
	pend := x.pend
	x.pend = nil
	var txs []*types.Transaction
	byHash := map[string]*pendTx{}
	for _, p := range pend {
		txs = append(txs, p.tx)
		hh := p.tx.Hash()
		byHash[string(hh[:])] = p
	}
	// per-transaction accounting runs BEFORE the commit (exact pre/post states of each transaction)
	good := true
	inspect := func(traces []*e1.TxTrace) {
		for _, t := range traces {
			hh := t.Tx.Hash()
			p := byHash[string(hh[:])]
			if p == nil {
				continue
			}
			pre, post := lcState{t.Pre, c}, lcState{t.Post, c}
			var acc []int
			fresh, faulty := 0, 0
			inTx := map[int]bool{}
			for _, n := range p.nodes {
				was, now := pre.has(n.hash), post.has(n.hash)
				if n.idx == 0 {
					if now && !was {
						run.Probe("trust_root_installed")
					}
					continue
				}
				if was {
					run.Fault("duplicate")
				}
				if now && !was {
					acc = append(acc, n.idx)
				}
				if len(n.broken) == 0 {
					if !was {
						fresh++
					}
					if n.kind == offEpochKind && !was && !n.fired && (pre.has(c.nodes[n.parent].hash) || inTx[n.parent]) {
						n.fired = true
						run.Fault(n.kind) // not a violation for this router (it cannot know the epoch length); outcome goes to a probe
					}
				} else {
					faulty++
					parentThere := n.parent >= 0 && (pre.has(c.nodes[n.parent].hash) || inTx[n.parent])
					if !was && (parentThere || n.kind == "unknown_parent") {
						if !n.fired {
							n.fired = true
							run.Fault(n.kind)
						}
						if !now {
							run.Probe("rejected:" + n.kind)
						}
					}
				}
				inTx[n.idx] = true
			}
			if !t.OK && fresh > 0 && faulty > 0 {
				run.Probe("tx_with_faulty_header_rolled_back")
			}
			if !t.OK && len(acc) > 0 {
				x.fail("failed-tx-stored-headers", "transaction %d failed but headers %v are stored in its post-state", t.Index, acc)
				good = false
				return
			}
			run.Logf("tx %d ok=%v headers=%d stored=%v", t.Index, t.OK, len(p.nodes), acc)
		}
	}
	func() {
		defer func() {
			if e := recover(); e != nil {
				st := string(debug.Stack())
				if strings.Contains(st, "native/service/header_sync/") {
					x.fail("router-panic", "header-sync handler panicked: %v", e)
					ok = false
					return
				}
				panic(e)
			}
		}()
		_, ok = x.h.ExecInspect(inspect, txs...)
	}()
	if !ok || !good {
		return false
	}
	return x.oracle()
}

// oracle inspects the committed light-client state.
func (x *exec) oracle() bool {
	c, run := x.c, x.run
	s := lcState{x.h.View(), c}
	root := c.nodes[0]
	if !s.has(root.hash) {
		for _, n := range c.nodes[1:] {
			if !n.noop && s.has(n.hash) {
				x.fail("stored-before-trust-root", "header %d (%s) stored although no trust root is installed", n.idx, n.kind)
				return false
			}
		}
		return true
	}
	root.stored = true
	x.rootInstalled = true
	var maxTD *big.Int
	for _, n := range c.nodes {
		if n.noop {
			continue
		}
		st := s.has(n.hash)
		if n.stored && !st {
			x.fail("stored-header-disappeared", "header %d (%s, number %d) was stored and is gone", n.idx, n.kind, n.number)
			return false
		}
		if st && !n.stored {
			if len(n.broken) > 0 {
				x.fail("stored-"+n.broken[0], "header %d (fault kind %s, number %d, parent node %d) is stored but breaks: %v", n.idx, n.kind, n.number, n.parent, n.broken)
				return false
			}
			if !s.has(c.nodes[n.parent].hash) {
				x.fail("stored-without-parent", "header %d (number %d) is stored, its parent (node %d) is not", n.idx, n.number, n.parent)
				return false
			}
			n.stored = true
			x.accepted++
			x.sig = append(x.sig, fmt.Sprintf("%s@%d+%d", n.kind, n.number-c.rootNo, n.hdr.Difficulty))
			if len(n.hdr.Extra) > extraVanity+extraSeal {
				run.Probe("epoch_block_stored")
			}
			if n.kind == offEpochKind {
				run.Probe("validator_bytes_on_non_epoch_accepted:" + x.v.name)
			}
			initial := c.prevSet
			if !contains(initial, n.sealer) {
				run.Probe("epoch_change_applied") // sealed by a key that only a later set contains
			}
			if n.hdr.Difficulty.Int64() == 1 {
				run.Probe("out_of_turn_stored")
			}
			if c.v.clique && n.hdr.Coinbase != (ecommon.Address{}) {
				run.Probe("clique_vote_stored")
			}
		}
		if st {
			content, td, err := s.record(n.hash)
			if err != nil {
				x.fail("stored-record-unreadable", "header %d: %v", n.idx, err)
				return false
			}
			if content != n.hash {
				x.fail("stored-content-differs", "header %d: stored header hashes to %x, key is %x", n.idx, content[:6], n.hash[:6])
				return false
			}
			if td == nil || n.td == nil || td.Cmp(n.td) != 0 {
				x.fail("wrong-total-difficulty", "header %d: stored total difficulty %v, reference %v", n.idx, td, n.td)
				return false
			}
			if maxTD == nil || n.td.Cmp(maxTD) > 0 {
				maxTD = n.td
			}
		}
	}
	// canonical chain
	hgt, ok := s.height()
	if !ok {
		x.fail("no-current-height", "current header height unreadable")
		return false
	}
	hh, ok := s.mainChain(hgt)
	hi, known := c.byHash[hh]
	if !ok || !known || !c.nodes[hi].stored {
		x.fail("canonical-head-not-stored", "main chain at current height %d points to %x which is not a stored generated header", hgt, hh[:6])
		return false
	}
	head := c.nodes[hi]
	if head.number != hgt {
		x.fail("main-chain-index-broken", "main chain entry %d holds a header of number %d", hgt, head.number)
		return false
	}
	if head.td.Cmp(maxTD) != 0 {
		x.fail("canonical-not-heaviest", "canonical head node %d (number %d) has total difficulty %v, a stored header has %v", head.idx, head.number, head.td, maxTD)
		return false
	}
	onMain := map[int]bool{}
	for n := head; ; n = c.nodes[n.parent] {
		onMain[n.idx] = true
		if n.kind == offEpochKind && n.idx != head.idx {
			// the canonical chain runs through a set installed outside an epoch block
			run.Probe("off_epoch_set_change_on_canonical_chain:" + x.v.name)
			for _, a := range listed(n.hdr) {
				if c.byAddr[a] >= nUniverse {
					// ... a set made of the announcing validator and keys that never were validators
					run.Probe("single_validator_takeover_canonical:" + x.v.name)
					break
				}
			}
		}
		got, ok := s.mainChain(n.number)
		if !ok || got != n.hash {
			x.fail("main-chain-index-broken", "main chain entry %d is %x, the head's ancestor at that height is node %d (%x)", n.number, got[:6], n.idx, n.hash[:6])
			return false
		}
		if n.parent < 0 {
			break
		}
	}
	for d := uint64(1); d <= 3; d++ {
		if got, ok := s.mainChain(hgt + d); ok {
			x.fail("main-chain-index-broken", "main chain has an entry %x above the current height %d", got[:6], hgt)
			return false
		}
	}
	for _, n := range c.nodes {
		if n.stored && !onMain[n.idx] {
			run.Probe("side_branch_stored")
			break
		}
	}
	if x.head >= 0 && x.head != head.idx && x.rootInstalled {
		// did the head move to another branch?
		desc := false
		for n := head; ; n = c.nodes[n.parent] {
			if n.idx == x.head {
				desc = true
				break
			}
			if n.parent < 0 {
				break
			}
		}
		if !desc {
			x.reorgs++
			run.Probe("fork_reorg_by_difficulty")
			if head.number <= c.nodes[x.head].number {
				run.Probe("reorg_to_not_longer_chain")
			}
		}
	}
	x.head = head.idx
	d := sha256.Sum256([]byte(fmt.Sprintf("%s/%d/%d/%x", x.v.name, x.accepted, hgt-c.rootNo, hh[:8])))
	run.State(d[:])
	run.Logf("lc: stored=%d height=%d head=node%d td=%v", x.accepted, hgt, head.idx, head.td)
	return true
}

// finish: full scan for headers nobody generated, acceptance probes, evidence.
func (x *exec) finish() {
	c, run := x.c, x.run
	if !x.rootInstalled {
		return
	}
	all, err := x.h.Scan(chain.HeaderSync, append([]byte(hscom.HEADER_INDEX), le64(c.polyID)...))
	if err != nil {
		panic(err)
	}
	plen := len(hscom.HEADER_INDEX) + 8
	keys := make([]string, 0, len(all))
	for k := range all {
		keys = append(keys, k)
	}
	sort.Strings(keys)
	for _, k := range keys {
		hash := ecommon.BytesToHash([]byte(k[plen:]))
		i, ok := c.byHash[hash]
		if !ok || !c.nodes[i].stored {
			x.fail("unknown-header-stored", "header index holds %x which the oracle did not see stored", hash[:6])
			return
		}
	}
	if len(keys) != x.accepted+1 {
		x.fail("unknown-header-stored", "header index holds %d entries, oracle saw %d", len(keys), x.accepted+1)
		return
	}
	if !x.oracle() {
		return
	}
	honest, stored, fired, firedKinds := 0, 0, 0, map[string]int{}
	for _, n := range c.nodes[1:] {
		if n.noop {
			continue
		}
		if len(n.broken) == 0 {
			if n.submitted > 0 && c.pure(n) {
				honest++
				if n.stored {
					stored++
				}
			}
			if n.kind == offEpochKind && n.fired {
				firedKinds[n.kind]++
			}
		} else if n.fired {
			fired++
			firedKinds[n.kind]++
		}
	}
	if honest >= 3 {
		switch {
		case stored == honest:
			run.Probe("honest_all_accepted")
			run.Probe("honest_majority_accepted:" + x.v.name)
		case stored*5 >= honest*4:
			run.Probe("honest_majority_accepted:" + x.v.name)
		default:
			run.Probe("honest_minority_accepted:" + x.v.name)
		}
	}
	run.Logf("end: honest submitted=%d stored=%d faulty fired=%d reorgs=%d", honest, stored, fired, x.reorgs)
	if stored >= 5 && fired > 0 {
		sort.Strings(x.sig)
		var kinds []string
		for k, n := range firedKinds {
			kinds = append(kinds, fmt.Sprintf("%s=%d", k, n))
		}
		sort.Strings(kinds)
		run.Nontrivial([]byte(fmt.Sprintf("%s|%v|%v|%d|%d", x.v.name, x.sig, kinds, x.reorgs, c.nodes[x.head].number)))
	}
	run.Sample = map[string]interface{}{
		"router": x.v.name, "routers_covered_by_this_check": routerNames(), "epoch_length": c.epoch, "trust_root_height": c.rootNo,
		"set_before_root": len(c.prevSet), "set_announced_by_root": len(listed(c.nodes[0].hdr)),
		"honest_headers_submitted": honest, "honest_headers_stored": stored, "faulty_headers_fired": firedKinds,
		"canonical_switches_to_another_branch": x.reorgs, "canonical_head_number": c.nodes[x.head].number, "plan_steps": len(run.Plan.Steps),
	}
}
