package lcposa

import (
	"time"

	"github.com/polynetwork/poly/core/types"
	hscom "github.com/polynetwork/poly/native/service/header_sync/common"

	"polysim/chain"
	"polysim/engines/e1"
	"polysim/engines/lc"
)

// lc.Driver / lc.Chain for every router of the family (used by the router-generic checks
// C19 and C16-clock).

type driver struct{ v *variant }

func init() {
	for _, v := range variants {
		lc.Register(&driver{v})
	}
}

func (d *driver) Name() string   { return d.v.name }
func (d *driver) Router() uint64 { return d.v.router }

func (d *driver) NewChain(h *e1.Harness, chainID uint64, seed uint64) (lc.Chain, error) {
	c := newSimChain(d.v, seed, chainID, 5, 1, 2)
	if err := c.register(h); err != nil {
		return nil, err
	}
	return &lcChain{h: h, c: c, tip: c.nodes[0]}, nil
}

type lcChain struct {
	h   *e1.Harness
	c   *simChain
	tip *node
	alt *simChain
	n   int64
}

// GenesisTx: 0 = the real trust root; 1 = another chain's trust root (other keys, other
// validator sets, other header) for the same poly chain id; 2 = the real trust root with the
// same data re-encoded (different JSON whitespace, hence different transaction bytes).
func (l *lcChain) GenesisTx(variantNo int) *types.Transaction {
	switch variantNo {
	case 1:
		if l.alt == nil {
			l.alt = newSimChain(l.c.v, l.c.seed^0x5eed5eed, l.c.polyID, l.c.epoch, 3, 4)
		}
		return l.alt.genesisTx(l.h, l.alt.genesisBytes(false))
	case 2:
		return l.c.genesisTx(l.h, l.c.genesisBytes(true))
	}
	return l.c.genesisTx(l.h, l.c.genesisBytes(false))
}

// NextHeaders extends the simulated chain by k valid headers (epoch blocks announce new sets
// every other epoch) and returns the relayer transaction carrying them. Headers produced
// earlier that the light client does not hold (e.g. requested before the trust root was
// installed, or carried by a transaction that failed) are re-sent first, so the batch always
// connects to what is stored.
func (l *lcChain) NextHeaders(k int) *types.Transaction {
	var ns []*node
	s := lcState{l.h.View(), l.c}
	for _, n := range l.c.path(l.tip)[1:] {
		if !s.has(n.hash) {
			ns = append(ns, n)
		}
	}
	if len(ns) > 40 {
		ns = ns[:40]
	}
	for i := 0; i < k; i++ {
		l.n++
		setSel := int64(0)
		if l.c.isEpoch(l.tip.number+1) && (l.tip.number/l.c.epoch)%2 == 0 {
			setSel = 100 + l.n
		}
		n := l.c.mkHonest(l.tip, 1+l.n%5, setSel)
		if n.noop {
			break
		}
		l.tip = n
		ns = append(ns, n)
	}
	if len(ns) == 0 {
		return nil
	}
	return l.c.headersTx(l.h, l.h.User(1), ns)
}

func (l *lcChain) StatePrefixes() [][]byte {
	var out [][]byte
	names := []string{hscom.GENESIS_HEADER, hscom.HEADER_INDEX, hscom.MAIN_CHAIN, hscom.CURRENT_HEADER_HEIGHT}
	if l.c.v.bor {
		names = append(names, hscom.POLYGON_SPAN)
	}
	for _, p := range names {
		k := append([]byte{}, chain.HeaderSync[:]...)
		k = append(k, p...)
		out = append(out, append(k, le64(l.c.polyID)...))
	}
	return out
}

// Timestamped: every router of this family compares header.Time with time.Now().
func (l *lcChain) Timestamped() bool { return true }

// FutureHeader: one otherwise valid child of the tip whose timestamp is aheadSec after the
// (bubble) clock. The header is a sibling of whatever NextHeaders produces next; the simulated
// chain does not adopt it.
func (l *lcChain) FutureHeader(aheadSec int64) *types.Transaction {
	c := l.c
	d := c.draft(l.tip, 1, 0, len(c.nodes)+1000)
	if d == nil {
		return nil
	}
	d.h.Time = uint64(time.Now().Unix() + aheadSec)
	if c.isEpoch(l.tip.number+1) && !c.v.clique {
		_, announced, _ := c.setFor(l.tip, l.tip.number+1)
		d.h.Extra = c.extra(len(c.nodes)+1000, announced)
	}
	c.seal(d.h, c.keys[c.byAddr[d.sealer]])
	n := &node{idx: -1, kind: "future", parent: l.tip.idx, hdr: d.h, hash: d.h.Hash(), raw: c.wire(d.h)}
	return c.headersTx(l.h, l.h.User(1), []*node{n})
}
