// Package lcposa is the polysim engine for proof-of-staked-authority light clients
// (property C29): a simulated PoSA side chain (Parlia / Congress / Clique style) with real
// secp256k1 seals, a relayer that submits honest and faulty headers in any order, and a
// reference model (block tree with the validator set in effect, recent signers and total
// difficulty per fork) against which everything the router STORES is judged.
package lcposa

import (
	"bytes"
	"crypto/ecdsa"
	"crypto/sha256"
	"encoding/binary"
	"encoding/json"
	"fmt"
	"math/big"
	"sort"

	ecommon "github.com/ethereum/go-ethereum/common"
	etypes "github.com/ethereum/go-ethereum/core/types"
	"github.com/ethereum/go-ethereum/crypto"
	"github.com/ethereum/go-ethereum/rlp"
	"golang.org/x/crypto/sha3"

	"github.com/polynetwork/poly/native/service/utils"

	"polysim/kernel"
)

// variant describes one router of the PoSA family: how its side chain seals headers, when an
// announced validator set takes effect, and what the registered side-chain entry carries.
type variant struct {
	name        string
	router      uint64
	sealChainID bool // the seal hash commits to the EVM chain id (Parlia: BSC, Bytom)
	delayed     bool // Parlia: the set announced at epoch block E is in effect from E+floor(|old|/2)+1; otherwise from E+1
	period      bool // the registered entry carries the block period and timestamps must respect it
	clique      bool // MSC: clique with votes; epoch length is registered, checkpoints list the signers in effect
	bor         bool // Polygon Bor: fixed set per span (trust root carries the snapshot), proposer + backups, difficulty N-succession, no recent-signer rule
}

var variants = []*variant{
	{name: "bsc", router: utils.BSC_ROUTER, sealChainID: true, delayed: true},
	{name: "heco", router: utils.HECO_ROUTER, period: true},
	{name: "hsc", router: utils.HSC_ROUTER, period: true},
	{name: "pixie", router: utils.PIXIECHAIN_ROUTER, period: true},
	{name: "bytom", router: utils.BYTOM_ROUTER, sealChainID: true, delayed: true},
	{name: "msc", router: utils.MSC_ROUTER, period: true, clique: true},
	{name: "bor", router: utils.POLYGON_BOR_ROUTER, period: true, bor: true},
}

// epochKnown: the router is told where epoch (checkpoint / sprint-end) blocks are. The BSC
// family is not: such a light client takes any header that carries validator bytes for an
// epoch block, and the reference follows it (the listed set is adopted as an announcement).
func (v *variant) epochKnown() bool { return v.clique || v.bor }

func variantByName(n string) *variant {
	for _, v := range variants {
		if v.name == n {
			return v
		}
	}
	return nil
}

func routerNames() []string {
	var out []string
	for _, v := range variants {
		out = append(out, v.name)
	}
	return out
}

const (
	extraVanity  = 32
	extraSeal    = 65
	addrLen      = 20
	nUniverse    = 9 // validator keys that can ever be in a set
	nOutsiders   = 2 // keys that are never in any set
	blockPeriod  = 3
	borSprint    = 64 // Bor: no sprint boundary lies inside a run (sprint-end headers need a Heimdall span proof)
	borBackup    = 2  // Bor: extra delay per succession step
	borDelay     = 4  // Bor: producer delay at sprint start
	evmChainID   = 97
	gasLimit     = 30000000
	genesisClock = 946684800 // 2000-01-01 00:00:00 UTC, the bubble's start
)

var (
	nonceAuth = etypes.BlockNonce{0xff, 0xff, 0xff, 0xff, 0xff, 0xff, 0xff, 0xff}
	nonceDrop = etypes.BlockNonce{}
	uncleHash = etypes.CalcUncleHash(nil)
)

type key struct {
	priv *ecdsa.PrivateKey
	addr ecommon.Address
}

// deriveKey: private scalar = sha256(seed, label) mod (n-1) + 1. Never crypto/rand.
func deriveKey(seed uint64, label string) *key {
	b := binary.LittleEndian.AppendUint64(nil, seed)
	b = append(b, "posa-key:"...)
	b = append(b, label...)
	h := sha256.Sum256(b)
	n1 := new(big.Int).Sub(crypto.S256().Params().N, big.NewInt(1))
	d := new(big.Int).SetBytes(h[:])
	d.Mod(d, n1)
	d.Add(d, big.NewInt(1))
	buf := make([]byte, 32)
	d.FillBytes(buf)
	priv, err := crypto.ToECDSA(buf)
	if err != nil {
		panic(err)
	}
	return &key{priv: priv, addr: crypto.PubkeyToAddress(priv.PublicKey)}
}

// node is one generated header (honest or faulty) in the simulated block tree.
type node struct {
	idx    int
	kind   string // "root", "honest" or a fault kind
	noop   bool   // the step was inapplicable: nothing was generated
	parent int    // node index of the parent; -1 = the parent is not a generated header
	hdr    *etypes.Header
	hash   ecommon.Hash
	raw    []byte // what the relayer submits (JSON)
	sealer ecommon.Address
	number uint64
	td     *big.Int // reference total difficulty (nil if the parent is unknown)
	broken []string // rules of the property this header breaks according to the reference (empty = valid)

	submitted int
	fired     bool
	stored    bool
}

// simChain is the simulated side chain: key universe, block tree and the protocol rules.
type simChain struct {
	v       *variant
	seed    uint64
	polyID  uint64 // chain id in poly's side-chain registry
	epoch   uint64
	keys    []*key // universe then outsiders
	byAddr  map[ecommon.Address]int
	nodes   []*node
	byHash  map[ecommon.Hash]int
	prevSet []ecommon.Address // the set in effect before the root's announcement (BSC family: PrevValidators[0])
	rootNo  uint64
	propIdx int // Bor: index of the span's current proposer in prevSet
}

func newSimChain(v *variant, seed uint64, polyID uint64, epoch uint64, set0, set1 int64) *simChain {
	c := &simChain{v: v, seed: seed, polyID: polyID, epoch: epoch, byAddr: map[ecommon.Address]int{}, byHash: map[ecommon.Hash]int{}}
	for i := 0; i < nUniverse+nOutsiders; i++ {
		k := deriveKey(seed, fmt.Sprintf("%s/%d", v.name, i))
		c.keys = append(c.keys, k)
		c.byAddr[k.addr] = i
	}
	c.rootNo = epoch * 200
	c.prevSet = c.pickSet(set0|1, nil)
	rootSet := c.pickSet(set1|1, nil)
	if v.clique {
		// clique: the checkpoint lists the set already in effect
		c.prevSet = rootSet
	}
	if v.bor {
		// Bor: the trust root is an ordinary block right after a sprint start; its snapshot
		// (validator set + proposer) comes with it
		c.epoch = borSprint
		c.rootNo = borSprint*200 + 1
		c.prevSet = rootSet
		c.propIdx = mod(set0, len(rootSet))
		rootSet = nil
	}
	// the root is an epoch block sealed by the in-turn member of the set in effect before it
	sealer := c.prevSet[c.rootNo%uint64(len(c.prevSet))]
	if v.bor {
		sealer = c.prevSet[c.propIdx]
	}
	h := c.blank(ecommon.BytesToHash(c.bytes("rootparent", 0, 32)), c.rootNo, genesisClock-3600, 0)
	h.Difficulty = c.wantDifficulty(c.prevSet, c.rootNo, sealer)
	if !v.clique && !v.bor {
		h.Coinbase = sealer
	}
	h.Extra = c.extra(0, rootSet)
	c.seal(h, c.keys[c.byAddr[sealer]])
	n := &node{idx: 0, kind: "root", parent: -1, hdr: h, hash: h.Hash(), sealer: sealer, number: c.rootNo, td: new(big.Int).Set(h.Difficulty)}
	n.raw = c.wire(h)
	c.nodes = append(c.nodes, n)
	c.byHash[n.hash] = 0
	return c
}

// wire is the relayer's encoding of one header.
func (c *simChain) wire(h *etypes.Header) []byte {
	if c.v.bor {
		return mustJSON(map[string]interface{}{"Header": h, "Proof": nil})
	}
	return mustJSON(h)
}

// entryLen: bytes per listed validator (Bor lists address + 20-byte voting power).
func (c *simChain) entryLen() int {
	if c.v.bor {
		return 2 * addrLen
	}
	return addrLen
}

// wantDifficulty is the reference difficulty rule: 2 in turn / 1 out of turn; Bor: N minus
// the sealer's distance behind the proposer.
func (c *simChain) wantDifficulty(set []ecommon.Address, number uint64, sealer ecommon.Address) *big.Int {
	if c.v.bor {
		i := indexOf(set, sealer)
		if i < 0 {
			return big.NewInt(1)
		}
		return big.NewInt(int64(len(set) - c.succession(set, sealer)))
	}
	if len(set) > 0 && set[number%uint64(len(set))] == sealer {
		return big.NewInt(2)
	}
	return big.NewInt(1)
}

func (c *simChain) succession(set []ecommon.Address, sealer ecommon.Address) int {
	return (indexOf(set, sealer) - c.propIdx + len(set)) % len(set)
}

func mustJSON(v interface{}) []byte {
	b, err := json.Marshal(v)
	if err != nil {
		panic(err)
	}
	return b
}

func (c *simChain) bytes(label string, i int, n int) []byte {
	return kernel.NewRNG(kernel.Derive(c.seed, "posa:"+c.v.name+":"+label, uint64(i))).Bytes(n)
}

func sortAddrs(a []ecommon.Address) {
	sort.Slice(a, func(i, j int) bool { return bytes.Compare(a[i][:], a[j][:]) < 0 })
}

// pickSet maps a plan integer to a validator set of 3..7 universe keys, sorted ascending by
// address (as Parlia/Congress/Clique list them). sel == 0 keeps cur.
func (c *simChain) pickSet(sel int64, cur []ecommon.Address) []ecommon.Address {
	if sel == 0 && cur != nil {
		return append([]ecommon.Address{}, cur...)
	}
	if sel < 0 {
		sel = -sel
	}
	r := kernel.NewRNG(kernel.Derive(c.seed, "posa-set", uint64(sel)))
	size := 3 + r.Intn(5)
	perm := r.Perm(nUniverse)
	var out []ecommon.Address
	for _, p := range perm[:size] {
		out = append(out, c.keys[p].addr)
	}
	sortAddrs(out)
	return out
}

func (c *simChain) blank(parent ecommon.Hash, number uint64, time uint64, salt int) *etypes.Header {
	return &etypes.Header{
		ParentHash: parent, UncleHash: uncleHash,
		Root: ecommon.BytesToHash(c.bytes("root", salt, 32)), TxHash: ecommon.BytesToHash(c.bytes("txs", salt, 32)), ReceiptHash: ecommon.BytesToHash(c.bytes("rcpt", salt, 32)),
		Difficulty: big.NewInt(1), Number: new(big.Int).SetUint64(number), GasLimit: gasLimit, GasUsed: uint64(21000 * (1 + salt%7)), Time: time,
	}
}

// extra lays out vanity | validator bytes | room for the seal.
func (c *simChain) extra(salt int, vals []ecommon.Address) []byte {
	e := append([]byte{}, c.bytes("vanity", salt, extraVanity)...)
	for _, a := range vals {
		e = append(e, a[:]...)
		if c.v.bor {
			e = append(e, append(make([]byte, addrLen-1), 10)...) // voting power 10
		}
	}
	return append(e, make([]byte, extraSeal)...)
}

// sealHash is the hash a validator signs: the header without the trailing 65 seal bytes
// (Parlia additionally commits to the EVM chain id).
func (c *simChain) sealHash(h *etypes.Header) (out ecommon.Hash, ok bool) {
	if len(h.Extra) < extraSeal {
		return out, false
	}
	var f []interface{}
	if c.v.sealChainID {
		f = append(f, big.NewInt(evmChainID))
	}
	f = append(f, h.ParentHash, h.UncleHash, h.Coinbase, h.Root, h.TxHash, h.ReceiptHash, h.Bloom, h.Difficulty, h.Number,
		h.GasLimit, h.GasUsed, h.Time, h.Extra[:len(h.Extra)-extraSeal], h.MixDigest, h.Nonce)
	k := sha3.NewLegacyKeccak256()
	if err := rlp.Encode(k, f); err != nil {
		panic(err)
	}
	k.Sum(out[:0])
	return out, true
}

// seal signs the header in place (the last 65 bytes of Extra). RFC 6979: deterministic.
func (c *simChain) seal(h *etypes.Header, k *key) {
	sh, ok := c.sealHash(h)
	if !ok {
		return
	}
	sig, err := crypto.Sign(sh[:], k.priv)
	if err != nil {
		panic(err)
	}
	copy(h.Extra[len(h.Extra)-extraSeal:], sig)
}

// recoverSealer recovers the address that sealed h (ok=false if the seal does not recover).
func (c *simChain) recoverSealer(h *etypes.Header) (ecommon.Address, bool) {
	sh, ok := c.sealHash(h)
	if !ok {
		return ecommon.Address{}, false
	}
	pub, err := crypto.Ecrecover(sh[:], h.Extra[len(h.Extra)-extraSeal:])
	if err != nil || len(pub) != 65 {
		return ecommon.Address{}, false
	}
	var a ecommon.Address
	copy(a[:], crypto.Keccak256(pub[1:])[12:])
	return a, true
}

// listed returns the validator list a header carries (nil if none or malformed).
func listed(h *etypes.Header) []ecommon.Address {
	n := len(h.Extra) - extraVanity - extraSeal
	if n <= 0 || n%addrLen != 0 {
		return nil
	}
	var out []ecommon.Address
	for i := 0; i < n; i += addrLen {
		out = append(out, ecommon.BytesToAddress(h.Extra[extraVanity+i:extraVanity+i+addrLen]))
	}
	return out
}

func (c *simChain) isEpoch(number uint64) bool {
	if c.v.bor {
		return (number+1)%c.epoch == 0 // sprint end
	}
	return number%c.epoch == 0
}

func contains(set []ecommon.Address, a ecommon.Address) bool {
	for _, x := range set {
		if x == a {
			return true
		}
	}
	return false
}

func indexOf(set []ecommon.Address, a ecommon.Address) int {
	for i, x := range set {
		if x == a {
			return i
		}
	}
	return -1
}

// path returns the generated ancestors of a child of p, from the root to p.
func (c *simChain) path(p *node) []*node {
	var rev []*node
	for n := p; ; n = c.nodes[n.parent] {
		rev = append(rev, n)
		if n.parent < 0 {
			break
		}
	}
	for i, j := 0, len(rev)-1; i < j; i, j = i+1, j-1 {
		rev[i], rev[j] = rev[j], rev[i]
	}
	return rev
}

// setFor is the reference rule "validator set in effect" for a header number `number` whose
// parent is p, on p's fork. It returns the set in effect plus (BSC family) the most recently
// announced set and the one before it.
func (c *simChain) setFor(p *node, number uint64) (inEffect, announced, before []ecommon.Address) {
	if c.v.bor {
		return c.prevSet, c.prevSet, c.prevSet
	}
	path := c.path(p)
	if c.v.clique {
		return c.cliqueSet(path), nil, nil
	}
	// announcements along the fork: (height, set), oldest first; the set before the root's
	// announcement is the trust root's previous set
	before = c.prevSet
	announced = listed(path[0].hdr)
	at := path[0].number
	for _, n := range path[1:] {
		if l := listed(n.hdr); l != nil {
			before, announced, at = announced, l, n.number
		}
	}
	if c.v.delayed && number <= at+uint64(len(before)/2) {
		return before, announced, before
	}
	return announced, announced, before
}

type cliqueVote struct {
	signer, target ecommon.Address
	auth           bool
}

// cliqueSet replays clique voting along the fork: start from the signers listed by the most
// recent checkpoint, apply every later vote (votes are forgotten at checkpoints); a proposal
// passes when more than half of the current signers voted for it.
func (c *simChain) cliqueSet(path []*node) []ecommon.Address {
	start := 0
	for i, n := range path {
		if c.isEpoch(n.number) && listed(n.hdr) != nil {
			start = i
		}
	}
	set := append([]ecommon.Address{}, listed(path[start].hdr)...)
	var votes []cliqueVote
	for _, n := range path[start+1:] {
		target := n.hdr.Coinbase
		if target == (ecommon.Address{}) {
			continue
		}
		auth := n.hdr.Nonce == nonceAuth
		// a signer has one vote per target: the newer replaces the older
		for i, v := range votes {
			if v.signer == n.sealer && v.target == target {
				votes = append(votes[:i], votes[i+1:]...)
				break
			}
		}
		if contains(set, target) == auth { // adding a member / dropping a non-member is meaningless
			continue
		}
		votes = append(votes, cliqueVote{n.sealer, target, auth})
		cnt := 0
		for _, v := range votes {
			if v.target == target && v.auth == auth {
				cnt++
			}
		}
		if cnt > len(set)/2 {
			if auth {
				set = append(set, target)
				sortAddrs(set)
			} else {
				set = append(set[:indexOf(set, target)], set[indexOf(set, target)+1:]...)
				var keep []cliqueVote
				for _, v := range votes {
					if v.signer != target {
						keep = append(keep, v)
					}
				}
				votes = keep
			}
			var keep []cliqueVote
			for _, v := range votes {
				if v.target != target {
					keep = append(keep, v)
				}
			}
			votes = keep
		}
	}
	return set
}

// recentSealers: who sealed the `window` blocks before a child of p on p's fork (as far as
// the generated tree reaches, trust root included).
func (c *simChain) recentSealers(p *node, window int) []ecommon.Address {
	var out []ecommon.Address
	for n := p; window > 0; n = c.nodes[n.parent] {
		out = append(out, n.sealer)
		window--
		if n.parent < 0 {
			break
		}
	}
	return out
}

// judge applies the property's rules to a header, using only the reference tree. The result
// is the list of broken rules (empty = the header may be stored).
func (c *simChain) judge(n *node) []string {
	var broken []string
	h := n.hdr
	if n.parent < 0 {
		return []string{"unknown-parent"}
	}
	p := c.nodes[n.parent]
	if h.Number == nil || !h.Number.IsUint64() || h.Number.Uint64() != p.number+1 {
		broken = append(broken, "wrong-height")
	}
	number := p.number + 1
	if len(h.Extra) < extraVanity+extraSeal {
		return append(broken, "malformed-extra")
	}
	vb := len(h.Extra) - extraVanity - extraSeal
	if vb%c.entryLen() != 0 {
		broken = append(broken, "validator-bytes-length")
	} else if c.v.epochKnown() && vb != 0 && !c.isEpoch(h.Number.Uint64()) {
		broken = append(broken, "validator-bytes-on-non-epoch")
	} else if c.v.epochKnown() && vb == 0 && c.isEpoch(h.Number.Uint64()) {
		broken = append(broken, "epoch-block-without-validators")
	}
	sealer, ok := c.recoverSealer(h)
	if !ok {
		return append(broken, "seal-does-not-recover")
	}
	set, _, _ := c.setFor(p, number)
	if !contains(set, sealer) {
		return append(broken, "unauthorized-signer")
	}
	if !c.v.bor && contains(c.recentSealers(p, len(set)/2), sealer) {
		broken = append(broken, "recent-signer")
	}
	want := c.wantDifficulty(set, number, sealer).Int64()
	if h.Difficulty == nil || !h.Difficulty.IsInt64() || h.Difficulty.Int64() != want {
		broken = append(broken, "wrong-difficulty")
	}
	if c.v.clique && c.isEpoch(number) {
		if l := listed(h); l != nil && !sameSet(l, set) {
			broken = append(broken, "checkpoint-signers-mismatch")
		}
	}
	return broken
}

func sameSet(a, b []ecommon.Address) bool {
	if len(a) != len(b) {
		return false
	}
	for i := range a {
		if a[i] != b[i] {
			return false
		}
	}
	return true
}

// add registers a generated header in the tree.
func (c *simChain) add(kind string, parent int, h *etypes.Header) *node {
	n := &node{idx: len(c.nodes), kind: kind, parent: parent, hdr: h, hash: h.Hash()}
	if h.Number != nil && h.Number.IsUint64() {
		n.number = h.Number.Uint64()
	}
	if s, ok := c.recoverSealer(h); ok {
		n.sealer = s
	}
	n.raw = c.wire(h)
	if parent >= 0 && c.nodes[parent].td != nil && h.Difficulty != nil {
		n.td = new(big.Int).Add(c.nodes[parent].td, h.Difficulty)
	}
	if _, dup := c.byHash[n.hash]; dup {
		n.noop = true // identical to an existing header: nothing new was generated
	} else {
		c.byHash[n.hash] = n.idx
	}
	c.nodes = append(c.nodes, n)
	n.broken = c.judge(n)
	return n
}

func (c *simChain) addNoop(kind string) *node {
	n := &node{idx: len(c.nodes), kind: kind, noop: true, parent: -1}
	c.nodes = append(c.nodes, n)
	return n
}

// honestNodes: the root and every valid header whose ancestors are all valid (the headers
// further blocks may be built on). For routers that do not know the epoch length this includes
// a validly sealed header announcing a set outside an epoch block.
func (c *simChain) honestNodes() []*node {
	var out []*node
	for _, n := range c.nodes {
		if !n.noop && (n.kind == "root" || n.kind == "honest" || (n.kind == offEpochKind && len(n.broken) == 0)) {
			out = append(out, n)
		}
	}
	return out
}

const offEpochKind = "validators_on_non_epoch"

// pure: the header and all its ancestors were produced by honest validators following the
// simulated chain's own protocol (no off-epoch announcement on the way).
func (c *simChain) pure(n *node) bool {
	for {
		if n.kind != "honest" && n.kind != "root" {
			return false
		}
		if n.parent < 0 {
			return true
		}
		n = c.nodes[n.parent]
	}
}

// tips: honest nodes without honest children, heaviest first.
func (c *simChain) tips() []*node {
	hasChild := map[int]bool{}
	hs := c.honestNodes()
	for _, n := range hs {
		if n.parent >= 0 {
			hasChild[n.parent] = true
		}
	}
	var out []*node
	for _, n := range hs {
		if !hasChild[n.idx] {
			out = append(out, n)
		}
	}
	sort.SliceStable(out, func(i, j int) bool {
		if d := out[i].td.Cmp(out[j].td); d != 0 {
			return d > 0
		}
		return out[i].idx < out[j].idx
	})
	return out
}

func mod(a int64, n int) int {
	if n <= 0 {
		return 0
	}
	if a < 0 {
		a = -a
	}
	if a < 0 {
		a = 0
	}
	return int(a % int64(n))
}

// draft prepares an honest child of p: eligible sealers, chosen sealer, difficulty, extra.
// sealerSel%4 == 0 prefers an out-of-turn sealer; otherwise the in-turn validator seals when
// it is eligible. setSel chooses the set announced by an epoch block (BSC family) or the vote
// carried by the header (clique).
type draft struct {
	h        *etypes.Header
	sealer   ecommon.Address
	set      []ecommon.Address
	eligible []ecommon.Address
}

func (c *simChain) draft(p *node, sealerSel, setSel int64, salt int) *draft {
	number := p.number + 1
	set, announced, _ := c.setFor(p, number)
	recent := c.recentSealers(p, len(set)/2)
	if c.v.bor {
		recent = nil
	}
	var eligible []ecommon.Address
	for _, a := range set {
		if !contains(recent, a) {
			eligible = append(eligible, a)
		}
	}
	inTurn := set[number%uint64(len(set))]
	if c.v.bor {
		inTurn = set[c.propIdx]
	}
	var sealer ecommon.Address
	var off []ecommon.Address
	for _, a := range eligible {
		if a != inTurn {
			off = append(off, a)
		}
	}
	switch {
	case len(eligible) == 0:
		return nil
	case mod(sealerSel, 4) == 0 && len(off) > 0:
		sealer = off[mod(sealerSel/4, len(off))]
	case contains(eligible, inTurn):
		sealer = inTurn
	default:
		sealer = eligible[mod(sealerSel/4, len(eligible))]
	}
	h := c.blank(p.hash, number, p.hdr.Time+blockPeriod+uint64(mod(sealerSel, 2)), salt)
	h.Difficulty = c.wantDifficulty(set, number, sealer)
	var vals []ecommon.Address
	if c.v.bor {
		// a backup producer may only seal after its turn's delay
		h.Time += uint64(c.succession(set, sealer)) * borBackup
	} else if c.v.clique {
		if c.isEpoch(number) {
			vals = set
		} else if setSel != 0 {
			// vote: authorise a universe key outside the set, or drop a member (never below 3)
			t := c.keys[mod(setSel/2, nUniverse)].addr
			if !contains(set, t) {
				h.Coinbase, h.Nonce = t, nonceAuth
			} else if len(set) > 3 && t != sealer {
				h.Coinbase, h.Nonce = t, nonceDrop
			}
		}
	} else {
		h.Coinbase = sealer
		if c.isEpoch(number) {
			vals = c.pickSet(setSel, announced)
		}
	}
	h.Extra = c.extra(salt, vals)
	return &draft{h: h, sealer: sealer, set: set, eligible: eligible}
}

// mkHonest extends p by one valid header.
func (c *simChain) mkHonest(p *node, sealerSel, setSel int64) *node {
	d := c.draft(p, sealerSel, setSel, len(c.nodes))
	if d == nil {
		return c.addNoop("honest")
	}
	c.seal(d.h, c.keys[c.byAddr[d.sealer]])
	n := c.add("honest", p.idx, d.h)
	if len(n.broken) != 0 {
		panic(fmt.Sprintf("lcposa: generator produced an honest header the reference rejects: %v", n.broken))
	}
	return n
}

func le64(v uint64) []byte { return binary.LittleEndian.AppendUint64(nil, v) }
