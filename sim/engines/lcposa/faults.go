package lcposa

import (
	"math/big"

	ecommon "github.com/ethereum/go-ethereum/common"
)

// Fault kinds: each is a header a faulty validator / relayer could produce. "duplicate" is a
// relayer-level fault (re-submission of a stored header) and has no generator here.
var faultKinds = []string{
	"outsider_signer",          // sealed by a key that was never a validator
	"stale_signer",             // sealed by a validator key that is not in the set in effect
	"recent_signer",            // sealed by a member that sealed within the recent-signer window
	"swapped_difficulty",       // eligible sealer, in-turn/out-of-turn difficulty swapped
	"malformed_extra",          // vanity / seal lengths wrong
	"bad_validator_bytes_len",  // epoch block whose validator bytes are not a multiple of 20
	"validators_on_non_epoch",  // validator bytes on a block that is not an epoch block
	"early_epoch_change",       // sealed by a member of the announced set before it takes effect
	"unknown_parent",           // parent hash that is no generated header
	"wrong_height",             // number != parent number + 1
	"corrupt_signature",        // honest header with a damaged seal
	"wrong_checkpoint_signers", // clique only: checkpoint listing another signer set than the one in effect
}

func kindIndex(k string) int {
	for i, x := range faultKinds {
		if x == k {
			return i
		}
	}
	return -1
}

func minus(a, b []ecommon.Address) []ecommon.Address {
	var out []ecommon.Address
	for _, x := range a {
		if !contains(b, x) {
			out = append(out, x)
		}
	}
	return out
}

func (c *simChain) turnDifficulty(set []ecommon.Address, number uint64, sealer ecommon.Address) *big.Int {
	return c.wantDifficulty(set, number, sealer)
}

// mkBad generates one faulty header of the given kind on an honest parent chosen by
// parentSel among the parents where the kind is applicable (noop node if there is none).
func (c *simChain) mkBad(kind string, parentSel, a, b int64) *node {
	var cands, storedCands []*node
	for _, p := range c.honestNodes() {
		if c.applicable(kind, p) {
			cands = append(cands, p)
			if p.stored {
				storedCands = append(storedCands, p)
			}
		}
	}
	// an even parentSel builds on a parent the light client already holds (the fault then
	// fires at once); an odd one on any generated parent (the parent may arrive later or never)
	// a negative parentSel addresses the applicable parents from the OLDEST on (-1 = the first,
	// normally the trust root, -2 = its first descendant, ...): used to place faults right
	// behind the trust root
	var p *node
	if parentSel < 0 {
		if len(cands) == 0 {
			return c.addNoop(kind)
		}
		p = cands[mod(-(parentSel+1), len(cands))]
	} else {
		if parentSel%2 == 0 && len(storedCands) > 0 {
			cands = storedCands
		}
		parentSel /= 2
		if len(cands) == 0 {
			return c.addNoop(kind)
		}
		// prefer parents near the tips: parentSel counts from the newest candidate
		p = cands[len(cands)-1-mod(parentSel, len(cands))]
	}
	salt := len(c.nodes)
	d := c.draft(p, a, 0, salt)
	if d == nil {
		return c.addNoop(kind)
	}
	h := d.h
	number := p.number + 1
	set, announced, before := c.setFor(p, number)
	signer := c.keys[c.byAddr[d.sealer]]
	setCoinbase := func(k *key) {
		if !c.v.clique && !c.v.bor {
			h.Coinbase = k.addr
		}
	}
	switch kind {
	case "outsider_signer":
		signer = c.keys[nUniverse+mod(b, nOutsiders)]
		setCoinbase(signer)
		h.Difficulty = big.NewInt(1 + int64(mod(b/2, 4)/3)) // mostly the out-of-turn value
	case "stale_signer":
		var pool []ecommon.Address
		pool = append(pool, minus(before, set)...)
		pool = append(pool, minus(c.prevSet, set)...)
		for i := 0; i < nUniverse; i++ {
			if !contains(set, c.keys[i].addr) && !contains(pool, c.keys[i].addr) {
				pool = append(pool, c.keys[i].addr)
			}
		}
		if len(pool) == 0 {
			return c.addNoop(kind)
		}
		signer = c.keys[c.byAddr[pool[mod(b, len(pool))]]]
		setCoinbase(signer)
		h.Difficulty = big.NewInt(1 + int64(mod(b/16, 4)/3))
	case "recent_signer":
		// pool[i] sealed the block i+1 behind the new header (pool order = distance order, the
		// trust root's sealer included when the window reaches back to it); b picks the distance
		var pool []ecommon.Address
		for _, r := range c.recentSealers(p, len(set)/2) {
			if contains(set, r) {
				pool = append(pool, r)
			}
		}
		if len(pool) == 0 {
			return c.addNoop(kind)
		}
		signer = c.keys[c.byAddr[pool[mod(b, len(pool))]]]
		setCoinbase(signer)
		h.Difficulty = c.turnDifficulty(set, number, signer.addr)
	case "swapped_difficulty":
		if c.v.bor {
			// proposer claims a backup's difficulty, a backup claims the proposer's
			if d.sealer == set[c.propIdx] {
				h.Difficulty = big.NewInt(int64(len(set) - 1 - mod(b, len(set)-1)))
			} else {
				h.Difficulty = big.NewInt(int64(len(set)))
			}
			break
		}
		h.Difficulty = big.NewInt(3 - h.Difficulty.Int64())
	case "malformed_extra":
		van := h.Extra[:extraVanity]
		switch mod(b, 4) {
		case 0: // vanity one byte short
			h.Extra = append(append([]byte{}, van[:extraVanity-1]...), make([]byte, extraSeal)...)
		case 1: // nothing but a short vanity
			h.Extra = append([]byte{}, van[:20]...)
		case 2: // seal one byte short
			h.Extra = append(append([]byte{}, van...), make([]byte, extraSeal-1)...)
		case 3: // one stray byte between vanity and seal
			h.Extra = append(append(append([]byte{}, van...), 0x5a), make([]byte, extraSeal)...)
		}
	case "bad_validator_bytes_len":
		vals := listed(h)
		raw := append([]byte{}, h.Extra[extraVanity:len(h.Extra)-extraSeal]...)
		_ = vals
		if mod(b, 2) == 0 {
			raw = raw[:len(raw)-1-mod(b/2, addrLen-1)]
		} else {
			raw = append(raw, c.bytes("stray", salt, 1+mod(b/2, addrLen-1))...)
		}
		h.Extra = append(append(append([]byte{}, h.Extra[:extraVanity]...), raw...), make([]byte, extraSeal)...)
	case "validators_on_non_epoch":
		// a validator tries to install a set of its choice outside an epoch block
		vals := c.pickSet(b|1, nil)
		if mod(b, 2) == 0 {
			vals = []ecommon.Address{c.keys[nUniverse].addr, c.keys[nUniverse+1].addr, signer.addr}
			sortAddrs(vals)
		}
		h.Extra = c.extra(salt, vals)
	case "early_epoch_change":
		if c.v.clique {
			pool := c.cliqueCandidates(p)
			if len(pool) == 0 {
				return c.addNoop(kind)
			}
			signer = c.keys[c.byAddr[pool[mod(b, len(pool))]]]
			h.Difficulty = big.NewInt(1)
			break
		}
		next := announced
		if !c.v.delayed {
			// the epoch block itself, sealed by a member of the set it announces
			next = c.pickSet(b|1, nil)
			for i := int64(0); len(minus(next, set)) == 0 && i < 8; i++ {
				next = c.pickSet((b|1)+2*i+2, nil)
			}
			h.Extra = c.extra(salt, next)
		}
		pool := minus(next, set)
		if len(pool) == 0 {
			return c.addNoop(kind)
		}
		signer = c.keys[c.byAddr[pool[mod(b, len(pool))]]]
		setCoinbase(signer)
		h.Difficulty = c.turnDifficulty(next, number, signer.addr)
	case "unknown_parent":
		h.ParentHash = ecommon.BytesToHash(c.bytes("orphan", salt, 32))
	case "wrong_height":
		delta := []int64{1, -1, int64(c.epoch), 2}[mod(b, 4)] // number = parent+1+delta
		nn := int64(number) + delta
		h.Number = big.NewInt(nn)
		h.Difficulty = c.turnDifficulty(set, uint64(nn), signer.addr)
	case "corrupt_signature":
		// sealed below, damaged afterwards
	case "wrong_checkpoint_signers":
		other := c.pickSet(b|1, nil)
		for i := int64(0); sameSet(other, set) && i < 8; i++ {
			other = c.pickSet((b|1)+2*i+2, nil)
		}
		if mod(b, 3) == 0 && len(set) > 1 { // or just one member missing
			other = append([]ecommon.Address{}, set[1:]...)
		}
		h.Extra = c.extra(salt, other)
	default:
		return c.addNoop(kind)
	}
	c.seal(h, signer)
	if kind == "corrupt_signature" {
		seal := h.Extra[len(h.Extra)-extraSeal:]
		if mod(b, 5) == 0 {
			seal[64] = 4 + byte(mod(b/5, 200)) // impossible recovery id
		} else {
			bit := mod(b/5, 64*8)
			seal[bit/8] ^= 1 << uint(bit%8)
		}
	}
	parent := p.idx
	if kind == "unknown_parent" {
		parent = -1
	}
	n := c.add(kind, parent, h)
	if len(n.broken) == 0 && !(kind == offEpochKind && !c.v.epochKnown()) {
		n.noop = true // the mutation happened to leave a valid header: not a fault
	}
	return n
}

func (c *simChain) applicable(kind string, p *node) bool {
	number := p.number + 1
	switch kind {
	case "bad_validator_bytes_len":
		return c.isEpoch(number)
	case "validators_on_non_epoch":
		return !c.isEpoch(number)
	case "wrong_checkpoint_signers":
		return c.v.clique && c.isEpoch(number)
	case "early_epoch_change":
		if c.v.clique {
			return len(c.cliqueCandidates(p)) > 0
		}
		if !c.v.delayed {
			return c.isEpoch(number)
		}
		set, announced, _ := c.setFor(p, number)
		return len(minus(announced, set)) > 0
	case "recent_signer":
		if c.v.bor {
			return false // Bor has no recent-signer rule
		}
		set, _, _ := c.setFor(p, number)
		for _, r := range c.recentSealers(p, len(set)/2) {
			if contains(set, r) {
				return true
			}
		}
		return false
	}
	return true
}

// cliqueCandidates: keys that have been proposed (an authorising vote since the last
// checkpoint on p's fork) but are not (yet) in the set in effect.
func (c *simChain) cliqueCandidates(p *node) []ecommon.Address {
	path := c.path(p)
	set := c.cliqueSet(path)
	start := 0
	for i, n := range path {
		if c.isEpoch(n.number) {
			start = i
		}
	}
	var out []ecommon.Address
	for _, n := range path[start+1:] {
		t := n.hdr.Coinbase
		if t != (ecommon.Address{}) && n.hdr.Nonce == nonceAuth && !contains(set, t) && !contains(out, t) {
			if _, ok := c.byAddr[t]; ok {
				out = append(out, t)
			}
		}
	}
	return out
}
