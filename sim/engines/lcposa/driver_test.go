package lcposa

import (
	"testing"

	"github.com/polynetwork/poly/core/types"

	"polysim/engines/e1"
	"polysim/engines/lc"
	"polysim/kernel"
)

// TestDrivers is a development smoke test of the lc.Driver implementations: trust root once,
// other/re-encoded trust roots refused, header batches across epoch changes accepted, a future
// header refused and accepted once the clock passed it.
func TestDrivers(t *testing.T) {
	kernel.T = t
	defer kernel.Cleanup()
	for _, d := range lc.Drivers() {
		d := d
		kernel.InBubble(func() {
			run := kernel.NewRun(&kernel.Plan{Property: "DRV", Seed: 42, Cfg: map[string]int64{}})
			h, err := e1.NewHarness(run, 4, 0, privateNet, 100000)
			if err != nil {
				t.Fatal(err)
			}
			defer h.Close()
			ch, err := d.NewChain(h, 9, 4242)
			if err != nil {
				t.Fatalf("%s: %v", d.Name(), err)
			}
			one := func(what string, tx *types.Transaction, want bool) {
				if tx == nil {
					t.Fatalf("%s %s: nil tx", d.Name(), what)
				}
				tr, ok := h.Exec(tx)
				if !ok || len(tr) != 1 {
					t.Fatalf("%s %s: exec stopped: %v", d.Name(), what, run.Violations)
				}
				if tr[0].OK != want {
					t.Errorf("%s %s: ok=%v want %v", d.Name(), what, tr[0].OK, want)
				}
			}
			one("headers before genesis", ch.NextHeaders(1), true) // silently skipped (unknown parent)
			one("genesis other first?", ch.GenesisTx(0), true)
			one("genesis again", ch.GenesisTx(0), false)
			one("genesis other", ch.GenesisTx(1), false)
			one("genesis re-encoded", ch.GenesisTx(2), false)
			for i := 0; i < 5; i++ {
				one("headers", ch.NextHeaders(4), true)
			}
			fut := ch.FutureHeader(90)
			one("future header", fut, false)
			kernel.Advance(120e9)
			one("future header later", fut, true)
			one("headers after", ch.NextHeaders(3), true)
			n := 0
			for _, p := range ch.StatePrefixes() {
				var c [20]byte
				copy(c[:], p[:20])
				m, err := h.Scan(c, p[20:])
				if err != nil {
					t.Fatal(err)
				}
				n += len(m)
			}
			// genesis + height + (1 root + 1 lost + 20 + 1 future + 3) header records (the first
			// header was submitted before the trust root and is resubmitted by nobody) + main chain
			t.Logf("%s (router %d): %d state entries, violations=%v", d.Name(), d.Router(), n, run.Violations)
			if n < 40 || run.Failed() {
				t.Errorf("%s: state entries %d, violations %v", d.Name(), n, run.Violations)
			}
		})
	}
}
