package main

// polysim-lcposa: isolated command for the PoSA light-client engine (C29; lc drivers bsc, heco, hsc, pixie, bytom, msc).

import (
	"testing"

	"polysim/cli"
	_ "polysim/engines/lcposa"
)

func TestSim(t *testing.T) { cli.Main(t) }
