package main

// polysim-pool: isolated command for engine E3 "pool" (C36, C37).

import (
	"testing"

	"polysim/cli"
	_ "polysim/engines/pool"
)

func TestSim(t *testing.T) { cli.Main(t) }
