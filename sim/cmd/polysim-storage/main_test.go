package main

// polysim is built as a test binary (go test -c) so that engines can enter testing/synctest
// bubbles (fake clock). TestSim is the only entry point; flags (see polysim/cli) select what it does.

import (
	"testing"

	"polysim/cli"
	_ "polysim/engines/storage"
)

func TestSim(t *testing.T) { cli.Main(t) }
