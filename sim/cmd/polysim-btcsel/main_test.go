package main

// polysim-btcsel: isolated build of the btcsel engine (C26). Built as a test binary (go test -c);
// TestSim is the only entry point; flags (see polysim/cli) select what it does.

import (
	"testing"

	"polysim/cli"
	_ "polysim/engines/btcsel"
	"polysim/engines/lc"
)

// the router-generic checks (C19, C20) over this engine's driver/depositor only
func init() { lc.Finalize() }

func TestSim(t *testing.T) { cli.Main(t) }
