package main

// polysim-lceth: isolated command for the Ethereum PoW light-client engine (C27, C23 and the
// lc.Driver for the ETH router).

import (
	"testing"

	"polysim/cli"
	_ "polysim/engines/lceth"
)

func TestSim(t *testing.T) { cli.Main(t) }
