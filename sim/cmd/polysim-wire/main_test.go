package main

// polysim-wire: isolated command for engine E5 "wire" (C01, C02, C04, C05, C44).

import (
	"testing"

	"polysim/cli"
	_ "polysim/engines/wire"
)

func TestSim(t *testing.T) { cli.Main(t) }
