package main

// polysim-lctm: isolated command for the Tendermint-family light-client engine (C30; lc drivers
// cosmos, cosmos-stargate, okex, heimdall). lc.Finalize registers the router-generic checks
// (C19) over exactly these drivers, so they can be exercised in isolation too.

import (
	"testing"

	"polysim/cli"
	"polysim/engines/lc"
	_ "polysim/engines/lctm"
)

func init() { lc.Finalize() }

func TestSim(t *testing.T) { cli.Main(t) }
