package main

// polysim-lctm: isolated command for the Tendermint-family light-client engine (C30; lc drivers
// cosmos, okex, heimdall).

import (
	"testing"

	"polysim/cli"
	_ "polysim/engines/lctm"
)

func TestSim(t *testing.T) { cli.Main(t) }
