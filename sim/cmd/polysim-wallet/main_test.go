package main

// polysim-wallet: isolated command for the E6 "wallet" engine package (checks C43 and C38).
// Built as a test binary like polysim itself; TestSim is the only entry point.

import (
	"testing"

	"polysim/cli"
	_ "polysim/engines/wallet"
)

func TestSim(t *testing.T) { cli.Main(t) }
