package main

// polysim-lcont: isolated command for the Ontology / NEO / NEO N3 light-client engine
// (C31, C24, and the "ont"/"neo"/"neo3" lc drivers).
//
// With LCONT_C19=1 in the environment the router-generic check C19 is registered over these
// three drivers only (driver smoke test; run the binary with -verifdir /verif/.build/altout
// so that the committed evidence of the full C19 is not overwritten).

import (
	"os"
	"testing"

	"polysim/cli"
	"polysim/engines/lc"
	_ "polysim/engines/lcont"
)

func init() {
	if os.Getenv("LCONT_C19") == "1" {
		lc.Finalize()
	}
}

func TestSim(t *testing.T) { cli.Main(t) }
