package main

// polysim-lcont: isolated command for the Ontology / NEO / NEO N3 light-client engine
// (C31, C24, and the "ont"/"neo"/"neo3" lc drivers).

import (
	"testing"

	"polysim/cli"
	_ "polysim/engines/lcont"
)

func TestSim(t *testing.T) { cli.Main(t) }
