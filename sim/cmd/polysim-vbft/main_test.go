package main

// polysim-vbft: isolated command for engine E4 "round" (C40, C41).

import (
	"testing"

	"polysim/cli"
	_ "polysim/engines/vbftround"
)

func TestSim(t *testing.T) { cli.Main(t) }
