#!/bin/bash
# Generate a go build -overlay file that replaces the two harmony packages (cgo BLS, cannot be
# built in this sandbox) by stubs, from the *current* listing of /repo. Output dir: $1.
set -e
OUT=${1:?out dir}
REPO=${REPO:-/repo}
mkdir -p "$OUT"
cat > "$OUT/hs_stub.go" <<'G'
package harmony

import (
	"fmt"

	"github.com/polynetwork/poly/native"
)

type Handler struct{}

func NewHandler() *Handler { return new(Handler) }

func (h *Handler) SyncGenesisHeader(native *native.NativeService) error {
	return fmt.Errorf("harmony stub: not built in verification sandbox")
}
func (h *Handler) SyncBlockHeader(native *native.NativeService) error {
	return fmt.Errorf("harmony stub: not built in verification sandbox")
}
func (h *Handler) SyncCrossChainMsg(native *native.NativeService) error {
	return fmt.Errorf("harmony stub: not built in verification sandbox")
}
G
cat > "$OUT/ccm_stub.go" <<'G'
package harmony

import (
	"fmt"

	"github.com/polynetwork/poly/native"
	scom "github.com/polynetwork/poly/native/service/cross_chain_manager/common"
)

type Handler struct{}

func NewHandler() *Handler { return new(Handler) }

func (h *Handler) MakeDepositProposal(service *native.NativeService) (*scom.MakeTxParam, error) {
	return nil, fmt.Errorf("harmony stub: not built in verification sandbox")
}
G
printf 'package harmony\n' > "$OUT/empty.go"
{
  echo '{"Replace":{'
  first=1
  for d in native/service/header_sync/harmony native/service/cross_chain_manager/harmony; do
    stub="$OUT/hs_stub.go"; [ "$d" = native/service/cross_chain_manager/harmony ] && stub="$OUT/ccm_stub.go"
    used=0
    for f in "$REPO/$d"/*.go; do
      [ -e "$f" ] || continue
      [ $first = 1 ] || echo ','
      first=0
      if [ $used = 0 ] && [[ "$f" != *_test.go ]]; then
        printf '"%s":"%s"' "$f" "$stub"; used=1
      else
        printf '"%s":"%s"' "$f" "$OUT/empty.go"
      fi
    done
  done
  echo '}}'
} > "$OUT/overlay.json"
