#!/bin/bash
# Generate a go build -overlay file that replaces the two harmony packages (cgo BLS, cannot be
# built in this sandbox) by stubs, from the *current* listing of /repo. Output dir: $1.
set -e
OUT=${1:?out dir}
REPO=${REPO:-/repo}
mkdir -p "$OUT"
cat > "$OUT/hs_stub.go" <<'G'
package harmony

import (
	"fmt"

	"github.com/polynetwork/poly/native"
)

type Handler struct{}

func NewHandler() *Handler { return new(Handler) }

func (h *Handler) SyncGenesisHeader(native *native.NativeService) error {
	return fmt.Errorf("harmony stub: not built in verification sandbox")
}
func (h *Handler) SyncBlockHeader(native *native.NativeService) error {
	return fmt.Errorf("harmony stub: not built in verification sandbox")
}
func (h *Handler) SyncCrossChainMsg(native *native.NativeService) error {
	return fmt.Errorf("harmony stub: not built in verification sandbox")
}
G
cat > "$OUT/ccm_stub.go" <<'G'
package harmony

import (
	"fmt"

	"github.com/polynetwork/poly/native"
	scom "github.com/polynetwork/poly/native/service/cross_chain_manager/common"
)

type Handler struct{}

func NewHandler() *Handler { return new(Handler) }

func (h *Handler) MakeDepositProposal(service *native.NativeService) (*scom.MakeTxParam, error) {
	return nil, fmt.Errorf("harmony stub: not built in verification sandbox")
}
G
printf 'package harmony\n' > "$OUT/empty.go"
# Knob (overlay only, nothing in /repo changes): the main-net height up to which the legacy
# signature threshold applies becomes a variable so that C14 can exercise the strict rule.
# If the literal is not found exactly once the knob is left unpatched (VerifKnobPatched=false).
LS="$REPO/core/store/ledgerstore/ledger_store.go"
PATCHED=false
if [ "$(grep -c 'this.GetCurrentHeaderHeight() <= 20000000' "$LS")" = 1 ]; then
  sed 's/this.GetCurrentHeaderHeight() <= 20000000/this.GetCurrentHeaderHeight() <= VerifLegacyQuorumHeight/' "$LS" > "$OUT/ledger_store_knob.go"
  PATCHED=true
fi
cat > "$OUT/zz_verif_knob.go" <<G
package ledgerstore

// Overlay-only knob of the verification harness (not part of /repo).
var VerifLegacyQuorumHeight uint32 = 20000000

const VerifKnobPatched = $PATCHED
G
# Knob 2 (overlay only): the block overlay's initial buffer capacity (a 4 MiB allocation per
# executeBlock, which dominates simulated runs that execute thousands of tiny blocks) is
# reduced to 64 KiB; the buffer grows on demand, behaviour is unchanged.
OV="$REPO/core/store/overlaydb/overlaydb.go"
OVP=false
if [ "$(grep -c '^const initCap = 4 \* 1024 \* 1024$' "$OV")" = 1 ]; then
  sed 's/^const initCap = 4 \* 1024 \* 1024$/const initCap = 64 * 1024/' "$OV" > "$OUT/overlaydb_knob.go"
  OVP=true
fi
{
  echo '{"Replace":{'
  first=0
  printf '"%s":"%s"' "$REPO/core/store/ledgerstore/zz_verif_knob.go" "$OUT/zz_verif_knob.go"
  if [ $OVP = true ]; then printf ',\n"%s":"%s"' "$OV" "$OUT/overlaydb_knob.go"; fi
  if [ $PATCHED = true ]; then printf ',\n"%s":"%s"' "$LS" "$OUT/ledger_store_knob.go"; fi
  for d in native/service/header_sync/harmony native/service/cross_chain_manager/harmony; do
    stub="$OUT/hs_stub.go"; [ "$d" = native/service/cross_chain_manager/harmony ] && stub="$OUT/ccm_stub.go"
    used=0
    for f in "$REPO/$d"/*.go; do
      [ -e "$f" ] || continue
      [ $first = 1 ] || echo ','
      first=0
      if [ $used = 0 ] && [[ "$f" != *_test.go ]]; then
        printf '"%s":"%s"' "$f" "$stub"; used=1
      else
        printf '"%s":"%s"' "$f" "$OUT/empty.go"
      fi
    done
  done
  # extension point: tools/overlay.d/*.sh <outdir> prints extra lines  <source path><TAB><replacement path>
  for ext in "$(dirname "$0")"/overlay.d/*.sh; do
    [ -x "$ext" ] || continue
    REPO="$REPO" "$ext" "$OUT" | while IFS=$'\t' read -r src dst; do
      [ -n "$src" ] && printf ',\n"%s":"%s"' "$src" "$dst"
    done
  done
  echo '}}'
} > "$OUT/overlay.json"
