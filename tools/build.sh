#!/bin/bash
# Build polysim (test binary, go1.26.8, -tags verif, harmony overlay) from /repo's working tree.
set -e
VERIF=$(cd "$(dirname "$0")/.." && pwd)
export GOFLAGS=-mod=mod GOPROXY=off GOSUMDB=off GOTOOLCHAIN=local CGO_ENABLED=1
mkdir -p "$VERIF/.build"
exec 9>"$VERIF/.build/lock"; flock 9
"$VERIF/tools/genoverlay.sh" "$VERIF/.build/overlay"
cd "$VERIF/sim"
# keep go.sum a superset of /repo's
cat /repo/go.sum go.sum 2>/dev/null | sort -u > "$VERIF/.build/go.sum.new" && cp "$VERIF/.build/go.sum.new" go.sum
go1.26.8 test -c -tags verif -overlay "$VERIF/.build/overlay/overlay.json" -o "$VERIF/.build/polysim.test" ./cmd/polysim
