#!/bin/bash
# Build polysim (test binary, go1.26.8, -tags verif, harmony overlay) from /repo's working tree.
# Optional argument: another command directory under sim/cmd (used while developing an engine in isolation).
# POLYSIM_REPO=<dir>: build against another checkout of polynetwork/poly (scratch worktree with a
# deliberate mutation) instead of /repo; output goes to .build/<cmd>-alt-<hash>.test and its path is printed.
set -e
VERIF=$(cd "$(dirname "$0")/.." && pwd)
export GOFLAGS=-mod=mod GOPROXY=off GOSUMDB=off GOTOOLCHAIN=local CGO_ENABLED=1
mkdir -p "$VERIF/.build"
CMD=${1:-polysim}
REPO=${POLYSIM_REPO:-/repo}
cd "$VERIF/sim"
if [ "$REPO" = /repo ]; then
  exec 9>"$VERIF/.build/lock"; flock 9
  "$VERIF/tools/genoverlay.sh" "$VERIF/.build/overlay"
  # keep go.sum a superset of /repo's
  cat /repo/go.sum go.sum 2>/dev/null | sort -u > "$VERIF/.build/go.sum.new" && { cmp -s "$VERIF/.build/go.sum.new" go.sum || cp "$VERIF/.build/go.sum.new" go.sum; }
  go1.26.8 test -c -tags verif -overlay "$VERIF/.build/overlay/overlay.json" -o "$VERIF/.build/$CMD.test" ./cmd/$CMD
else
  TAG=$(echo "$REPO" | md5sum | cut -c1-8)
  ALT="$VERIF/.build/alt-$TAG"; mkdir -p "$ALT"
  REPO="$REPO" "$VERIF/tools/genoverlay.sh" "$ALT/overlay"
  sed "s#=> /repo#=> $REPO#" go.mod > "$ALT/go.mod"; cat "$REPO/go.sum" go.sum | sort -u > "$ALT/go.sum"
  go1.26.8 test -c -modfile="$ALT/go.mod" -tags verif -overlay "$ALT/overlay/overlay.json" -o "$VERIF/.build/$CMD-alt-$TAG.test" ./cmd/$CMD
  echo "$VERIF/.build/$CMD-alt-$TAG.test"
fi
