#!/usr/bin/env python3
"""Regenerates /verif/MANIFEST.json from the table below (kept valid at all times)."""
import json, os, subprocess
V = os.path.dirname(os.path.dirname(os.path.abspath(__file__)))

SIM = "deterministic simulation (seeded plans, fault injection, reference model/twin oracle)"
checks = {
 # id: (level, engine, technique, level text, level note, design_ref)
 "C12": ("fault_enumeration", "E1", "deterministic simulation: crash-point enumeration against an uncrashed twin",
         "Every H1 crash point (7 in submitBlock x both commit paths, 10 during genesis initialisation, 3 inside recoverStore as a second crash) is enumerated for every block of every sampled history; after restart the node's three databases, heights, roots, events and proofs must equal an uncrashed twin's, and again after finishing the chain. Exhaustive over crash points per history, sampled over histories.",
         "Process-crash model (completed LevelDB batch / file write survives; nothing poly buffers does); LevelDB's own atomic batches are trusted; histories are sampled.", "5 C12"),
}
not_applicable = {
 "C03": "pure function of a list of hashes: no schedule, clock, fault, I/O or second party for a simulation to vary (DESIGN 5, not applicable)",
 "C28": "pure arithmetic on two headers; decided by differential testing or proof against the spec, not by schedules or faults",
 "C39": "pure predicate on one transaction's signature entries; nothing to simulate",
 "C42": "arithmetic fact for all N plus a finite enumeration of a formula; a proof obligation, not a simulation target",
}
props = [json.loads(l) for l in open(os.path.join(V, "properties.jsonl"))]
ids = [p["id"] for p in props]
man = {
 "version": 1,
 "setup_cmd": "./tools/build.sh",
 "hooks": {
  "guard": "verif (Go build tag)",
  "enable": "tools/build.sh: go1.26.8 test -c -tags verif -overlay <harmony stub overlay> ./cmd/polysim in /verif/sim (replace github.com/polynetwork/poly => /repo)",
  "baseline_off_cmd": "./tools/baseline.sh",
  "source_commits": subprocess.run(["git","-C","/repo","log","--format=%h %s","--grep=^verif hook"],capture_output=True,text=True).stdout.strip().splitlines(),
  "add_only": True,
 },
 "engines": [
  {"name":"E1","path":"sim/engines/e1","serves_properties":[i for i in checks if checks[i][1]=="E1"],"kind_free_text":"cluster of real poly ledgers (producer + followers) driven by seeded plans of native-contract transactions, block cuts, crashes/restarts and Byzantine submissions"},
 ],
 "checks": [],
 "not_applicable": [],
 "notes": "One binary (polysim, a go test -c binary so engines can use testing/synctest) built from /repo's working tree on every check; ./check <ID> quick|thorough|replay <file>|selftest. Exit 0 held, 1 VIOLATION (replay verified in a fresh process first), 2 build/harness trouble or inconclusive (required probe never fired). Genuine defects repaired in /repo as fix: commits are listed in known_findings.json (status fixed).",
}
for i in ids:
    if i in checks:
        lvl, eng, tech, text, note, ref = checks[i]
        man["checks"].append({"property_id": i, "quick_cmd": f"./check {i} quick", "thorough_cmd": f"./check {i} thorough",
          "evidence_file": f"evidence/{i}.json", "replay_cmd_template": f"./check {i} replay {{path}}", "engine": eng,
          "level_claimed": {"category": lvl, "text": text, "design_ref": ref}, "level_note": note, "technique": tech})
    else:
        man["not_applicable"].append({"property_id": i, "reason": not_applicable.get(i, "not claimed yet: the simulated check for this property is not built/validated at this commit (see DESIGN.md section 5 for the plan)")})
json.dump(man, open(os.path.join(V, "MANIFEST.json"), "w"), indent=1)
print("checks:", [c["property_id"] for c in man["checks"]])
