#!/usr/bin/env python3
"""Regenerates /verif/MANIFEST.json from the table below (kept valid at all times)."""
import json, os, subprocess
V = os.path.dirname(os.path.dirname(os.path.abspath(__file__)))

SIM = "deterministic simulation (seeded plans, fault injection, reference model/twin oracle)"
checks = {
 # id: (level, engine, technique, level text, level note, design_ref)
 "C12": ("fault_enumeration", "E1", "deterministic simulation: crash-point enumeration against an uncrashed twin",
         "Every H1 crash point (7 in submitBlock x both commit paths, 10 during genesis initialisation, 3 inside recoverStore as a second crash) is enumerated for every block of every sampled history; after restart the node's three databases, heights, roots, events and proofs must equal an uncrashed twin's, and again after finishing the chain. Exhaustive over crash points per history, sampled over histories.",
         "Process-crash model (completed LevelDB batch / file write survives; nothing poly buffers does); LevelDB's own atomic batches are trusted; histories are sampled.", "5 C12"),
}
GOVNOTE = "Histories are sampled, not enumerated. Block producer is a stub that assembles/seals blocks as VBFT's constructBlock does; validator set and request state are observed from the implementation's own per-transaction pre-state (every prefix of each block is executed on the real ledger); the oracle re-derives counting/threshold rules from the property text."
def gov(text, ref):
    return ("exploration", "E1", "deterministic simulation: seeded operation histories on real ledgers, per-transaction pre/post-state observation, reference counting model", text, GOVNOTE, ref)
checks.update({
 "C08": gov("On every replica and for every committed block of sampled histories (0-12 cross-chain records per block, clean restarts), every record's served proof verifies against the block's committed cross-state root to exactly the stored record, the next header carries that root, and every (h<r) block proof verifies against header r's block root.", "5 C08"),
 "C15": gov("Every failed transaction of sampled blocks (natural failures at many depths, incl. after writes and after the done-mark) leaves no writes, cross records or events; removing the failed transactions leaves the block's state digest unchanged; outcomes of earlier transactions are unchanged by later ones.", "5 C15"),
 "C18": gov("Operator-only methods (commitDpos before due, updateConfig, blackChain, whiteChain) under 6 signing modes and all owner/approver/voter methods signed by a wrong key (10% of steps) must fail with no writes unless the required witness is present; operator address re-derived from the observed consensus set, across epochs.", "5 C18"),
 "C20": gov("Per (source chain, cross-chain id) at most one acceptance over sampled vote-router histories with replay rounds (same and altered payload, across blocks, restarts and epochs); done mark appears exactly with acceptance (main-net rule; the test-net exemption in the code is honoured). Only the vote router is driven by this check.", "5 C20"),
 "C21": gov("Imports whose source/destination is unregistered or blacklisted in the observed pre-state fail without writes; blacklist/whitelist take effect for later imports; interleavings with registration/quit and same-block list changes are sampled.", "5 C21"),
 "C22": gov("Each accepted import stores exactly one request keyed (destination, relay tx hash), content = (relay tx hash, source chain, voted message), whose leaf hash is the single new cross-state leaf; rejected imports add neither.", "5 C22"),
 "C25": gov("Votes (vote router) and collected signatures (signature manager): only observed consensus validators count, each once; release / quorum event exactly at the first vote reaching ceil(2N/3) distinct current validators, never again; N=4..8, epoch changes in between.", "5 C25/C32"),
 "C32": gov("For all 8 consensus-approved methods the action takes effect iff the distinct witnessed approvers that are consensus validators in the pre-state reach ceil(2N/3); other actions/requests never count; N=4..8 changing over epochs.", "5 C25/C32"),
 "C33": gov("After an approval takes effect its request is no longer pending and no later approval round applies it again without a fresh request (all request kinds, incl. remove->re-register->stale round).", "5 C33"),
 "C34": gov("Pool invariants after every transaction (>=4 active, unique keys/indices, blacklisted keys cannot register) and epoch-change rules (view+1, active->consensus, quitting/black dropped, at most one per block) over sampled node-governance histories with timeouts reachable.", "5 C34"),
 "C35": gov("The registered record of a chain changes only when an approval takes effect, equals the approved request, and updates/removals stem from a request by the registered owner of the current registration.", "5 C35"),
})
checks.update({
 "C13": gov("Byzantine submissions (wrong height/parent/timestamp/block root/state root, stale re-submission, sibling of the tip, valid controls) through AddBlock, ExecuteBlock+SubmitBlock and AddHeaders on any replica, interleaved with real histories: a committed block satisfies every acceptance rule evaluated by a reference (naive RFC 6962 block root); an uncommitted submission leaves every observable unchanged; lookups by height/hash return the committed block and transactions on every replica.", "5 C13"),
 "C14": gov("Byzantine seals (0 / threshold-1 / threshold signers, duplicated member, foreign keys, signatures over another hash, bookkeepers without signatures, former and future members around hand-overs, config-change blocks that fail later) for N=4..9 under both threshold rules (strict rule reached on main net through an overlay knob on the 20,000,000 literal): committed/indexed => distinct members of the set in force with valid signatures >= required; the set in force is unchanged by uncommitted submissions.", "5 C14"),
})
checks.update({
 "C16": ("exploration", "E1", "deterministic simulation: repeated and replicated execution of sampled blocks, results compared field by field", "Every block of sampled histories is executed 6 more times on producer and replicas from the same prior state (fresh Go map iteration orders, different replicas, after restarts) and once more for the commit: write set, digest, state root, cross-state root, cross hashes and events must be identical, and replicas' stored roots equal the producer's. Decided dynamically on the paths the workloads drive.", "Dynamic only: the clause 'no reachable path consults the wall clock or a random source' is decided by divergence on exercised paths, not by static reachability (governance contracts; light-client paths are added by their own checks). Go's map-iteration seed cannot be pinned, so order-dependence is detected with probability 1-2^-k over k repetitions.", "5 C16"),
 "C17": ("exploration", "E1", "deterministic simulation: write-set namespace monitor and key-layout attribution on every executed transaction", "Confinement is monitored on every transaction of every sampled history (all written keys lie under the contract-storage prefix of a registered contract). Unambiguity is checked only on the keys actually produced: each written key of the five governance/registry contracts must be attributable to exactly one record kind of its contract.", "PARTIAL: the 'for all parameter values' reading of key unambiguity needs a symbolic argument over the key constructors and is NOT claimed; header-sync/BTC record layouts are not attributed. Key layout table is the documented storage layout.", "5 C17"),
})
def simple(level, eng, tech, text, note, ref): return (level, eng, tech, text, note, ref)
checks.update({
 "C06": simple("fault_enumeration","E2","deterministic simulation: append/reload histories against a naive RFC 6962 model, with every reopen/crash position of each history enumerated","Sampled append histories (0-70 leaves quick, 600 thorough) with predictions, marshal/unmarshal and persist; after EVERY step the on-disk state is forked for both fault kinds (clean reopen; crash after the file append but before the size is persisted) and the rest of the history is continued; roots, predictions, inclusion and consistency proofs must equal the naive model and be accepted by the repo's verifiers.","Histories are sampled; the reopen/crash positions of each history are enumerated completely. Torn/shortened hash files are outside the property.","5 C06"),
 "C07": simple("exploration","E2","deterministic simulation: proof server -> corrupting/delaying channel -> verifying client, against naive tree and RFC 9162 verification","Every single mutation (hash/flag flips, drop/dup/swap, index/size +-1, leaf/interior confusion, truncation, trailing bytes, roots of other sizes) of sampled inclusion, consistency and path proofs, plus sampled multi-mutations (~2.9M tuples per quick batch): anything accepted that is neither the reference tuple nor accepted by the RFC 9162 algorithm is a violation.","Assumes SHA-256 collision resistance. Enumerated malleability classes whose accepted statement is still true (trailing bytes, non-0/1 flags, non-minimal varints in MerkleProve) are counted as probes.","5 C07"),
 "C09": simple("exploration","E2","deterministic simulation: operation histories against an ordered-map-with-tombstones model","Operation histories (put/delete/get/find/forEach/len/reset, up to 4 open range iterators stepped while writes happen) over colliding/nested keys; compared with the model after every step.","No fault dimension beyond reset and iterator reuse; histories sampled.","5 C09"),
 "C10": simple("exploration","E2","deterministic simulation: layered views over real LevelDB files with commit/reset/reopen/crash/backend-error faults against a three-map model","Ops at both layers, prefix scans through the join iterator, tx and block commits, close+reopen under live layers, crash between CommitTo and BatchCommit, injected backend Get/iterator errors (wrapper around PersistStore): scans list exactly the live keys with newest values; commit moves exactly the layer's changes; a backend error surfaces and never reads as absent.","Histories sampled; error injection through the PersistStore interface the overlay accepts.","5 C10"),
 "C11": simple("exploration","E2","deterministic simulation: k-tuples of write histories with equal net effect on twin overlays, digests repeated 8x","2-8 variants of one net write set (permutations, redundant overwrites, put-del-put, different transaction boundaries, rolled-back junk) on separate overlays: ChangeHash and write set equal across variants and across 8 repetitions; deliberately different variants differ.","Digest injectivity is not promised by the property and not asserted (collisions by missing length framing are reported as probes).","5 C11"),
 "C38": simple("exploration","E6","deterministic simulation: block streams with gaps/repeats/out-of-order heights, restarts and crashes against a sliding-window model","IncrementValidator fed real and synthetic blocks (gaps, repeats, older, far-future), Clean, consensus resync rule, node restart and crash at submit points; BlockRange and Verify(tx,start) compared with a deque model for every pool tx and many starts; the real stateful validator must report every committed tx as duplicate, also right after restart/crash recovery.","Capacity <= 0 and uint32 wrap of the window end are excluded by assumption.","5 C38"),
 "C43": simple("exploration","E6","deterministic simulation: account operation histories with restart-from-file against a map model","NewAccount for every key type/curve/scheme, import, label/default/scheme changes, ChangePassword, Delete, with process restart between any two steps; every live account decrypts with its password to the same key and with no other sampled password; wrong-password operations fail and change nothing.","Key material from crypto/rand inside poly (nothing logged depends on it); scrypt cost limits quick to ~30 histories; torn wallet writes are outside the property.","5 C43"),
})
not_applicable = {
 "C03": "pure function of a list of hashes: no schedule, clock, fault, I/O or second party for a simulation to vary (DESIGN 5, not applicable)",
 "C28": "pure arithmetic on two headers; decided by differential testing or proof against the spec, not by schedules or faults",
 "C39": "pure predicate on one transaction's signature entries; nothing to simulate",
 "C42": "arithmetic fact for all N plus a finite enumeration of a formula; a proof obligation, not a simulation target",
}
props = [json.loads(l) for l in open(os.path.join(V, "properties.jsonl"))]
ids = [p["id"] for p in props]
man = {
 "version": 1,
 "setup_cmd": "./tools/build.sh",
 "hooks": {
  "guard": "verif (Go build tag)",
  "enable": "tools/build.sh: go1.26.8 test -c -tags verif -overlay <harmony stub overlay> ./cmd/polysim in /verif/sim (replace github.com/polynetwork/poly => /repo)",
  "baseline_off_cmd": "./tools/baseline.sh",
  "source_commits": subprocess.run(["git","-C","/repo","log","--format=%h %s","--grep=^verif hook"],capture_output=True,text=True).stdout.strip().splitlines(),
  "add_only": True,
 },
 "engines": [
  {"name":"E1","path":"sim/engines/e1","serves_properties":[i for i in checks if checks[i][1]=="E1"],"kind_free_text":"cluster of real poly ledgers (producer + followers) driven by seeded plans of native-contract transactions, block cuts, crashes/restarts and Byzantine submissions"},
  {"name":"E2","path":"sim/engines/storage","serves_properties":[i for i in checks if checks[i][1]=="E2"],"kind_free_text":"storage stack (MemDB, OverlayDB/CacheDB over LevelDB files) and merkle accumulator/verifiers against reference models with reopen/crash/error faults"},
  {"name":"E6","path":"sim/engines/wallet","serves_properties":[i for i in checks if checks[i][1]=="E6"],"kind_free_text":"wallet file histories with restart; increment/stateful validators over block streams"},
 ],
 "checks": [],
 "not_applicable": [],
 "notes": "One binary (polysim, a go test -c binary so engines can use testing/synctest) built from /repo's working tree on every check; ./check <ID> quick|thorough|replay <file>|selftest. Exit 0 held, 1 VIOLATION (replay verified in a fresh process first), 2 build/harness trouble or inconclusive (required probe never fired). Genuine defects repaired in /repo as fix: commits are listed in known_findings.json (status fixed).",
}
for i in ids:
    if i in checks:
        lvl, eng, tech, text, note, ref = checks[i]
        man["checks"].append({"property_id": i, "quick_cmd": f"./check {i} quick", "thorough_cmd": f"./check {i} thorough",
          "evidence_file": f"evidence/{i}.json", "replay_cmd_template": f"./check {i} replay {{path}}", "engine": eng,
          "level_claimed": {"category": lvl, "text": text, "design_ref": ref}, "level_note": note, "technique": tech})
    else:
        man["not_applicable"].append({"property_id": i, "reason": not_applicable.get(i, "not claimed yet: the simulated check for this property is not built/validated at this commit (see DESIGN.md section 5 for the plan)")})
json.dump(man, open(os.path.join(V, "MANIFEST.json"), "w"), indent=1)
print("checks:", [c["property_id"] for c in man["checks"]])
