#!/bin/bash
# tools/confirm_seed.sh <ID> <worktree> '<demo go test args>'  : confirms a seeded breaking change
# (demo fails with the change, passes without it), leaves the worktree with the change applied.
ID=$1; WT=$2; shift; shift
cd "$WT" || exit 2
echo "== $ID with change:"; /tmp/polytest.sh "$WT" -count=1 "$@" 2>&1 | tail -4 | sed 's/^/   /'
git apply -R seed/patch.diff || { echo "cannot reverse patch"; exit 2; }
echo "== $ID without change:"; /tmp/polytest.sh "$WT" -count=1 "$@" 2>&1 | tail -3 | sed 's/^/   /'
git apply seed/patch.diff
