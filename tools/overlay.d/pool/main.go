// poolrewrite: build-time overlay generator for engine E3 "pool" (checks C36, C37).
//
//	poolrewrite <repo> <outdir>
//
// Nothing in <repo> is modified. The program writes rewritten COPIES of txnpool source files and
// a few ADDED files into <outdir> and prints one line per file: "<source path>\t<copy path>".
// tools/genoverlay.sh merges those lines into the go build -overlay JSON.
//
// What is produced (each item independently; when the source does not look as expected the item
// is skipped, never emitted half-rewritten; the engine then reports "inconclusive" via a probe):
//
//  1. txnpool/common/zz_simsched.go (ADDED): the scheduler shim. Exported hooks SimYield,
//     SimNote, SimOrder (all nil by default), lock helpers SimLock/SimUnlock/SimRecv, and two
//     registries SimHooks / SimRewritten. With SimYield == nil every helper performs exactly
//     the original operation (blocking Lock / channel receive).
//  2. txnpool/common/transaction_pool.go (REWRITTEN) + zz_simpool.go (ADDED): in every method
//     of the pool type (the struct that embeds sync.RWMutex and holds the hash->entry map)
//     X.Lock()/X.RLock() become SimLock(X.TryLock, X.Lock, site) (yield, then TryLock+yield
//     loop), [defer] X.Unlock()/X.RUnlock() become [defer] SimUnlock(X.Unlock), a
//     SimYield("file:line") call is inserted before every other statement of every block, and
//     `for _, v := range tp.<map>` iterates simEntries(tp.<map>): the same entries, in Go's
//     random order when SimYield == nil and in a plan-chosen order (SimOrder) otherwise.
//  3. txnpool/common/txnpool_common.go (REWRITTEN): MAX_CAPACITY and MAX_LIMITATION become
//     variables with their original values (knobs the engine shrinks per run).
//  4. txnpool/proc/txnpool_{server,worker,actor}.go (REWRITTEN, all three or none): every
//     mutex acquisition/release as in 2 (no per-statement yields), and a bare statement
//     `<-X` becomes SimRecv(try, block, site).
//  5. txnpool/proc/zz_simreset.go (ADDED): hook "proc.resetPermitted" clearing the package-level
//     permitted-address cache of txnpool_actor.go (needed so that runs sharing a process are
//     independent). Requires only the three variables to exist.
//  6. txnpool/proc/zz_simworker.go (ADDED, only with 4): hooks to create workers without their
//     goroutines and to execute one iteration of the worker loop body for a chosen channel.
package main

import (
	"bytes"
	"fmt"
	"go/ast"
	"go/format"
	"go/parser"
	"go/printer"
	"go/token"
	"os"
	"path/filepath"
	"regexp"
	"strconv"
	"strings"
)

var outDir string
var emitted []string

func emit(src, name string, content []byte) {
	dst := filepath.Join(outDir, name)
	// unchanged content is left alone, changed content is replaced atomically (a concurrent
	// build reading the previous overlay never sees a missing or half-written file)
	if old, err := os.ReadFile(dst); err != nil || !bytes.Equal(old, content) {
		tmp := fmt.Sprintf("%s.%d.tmp", dst, os.Getpid())
		if err := os.WriteFile(tmp, content, 0o644); err != nil {
			fmt.Fprintln(os.Stderr, "poolrewrite:", err)
			return
		}
		if err := os.Rename(tmp, dst); err != nil {
			fmt.Fprintln(os.Stderr, "poolrewrite:", err)
			return
		}
	}
	emitted = append(emitted, src+"\t"+dst)
}

func note(format string, a ...interface{}) {
	fmt.Fprintf(os.Stderr, "poolrewrite: "+format+"\n", a...)
}

func exprString(fset *token.FileSet, e ast.Expr) string {
	var b bytes.Buffer
	printer.Fprint(&b, fset, e)
	return b.String()
}

func isSyncMutex(e ast.Expr) (rw bool, ok bool) {
	se, is := e.(*ast.SelectorExpr)
	if !is {
		return false, false
	}
	id, is := se.X.(*ast.Ident)
	if !is || id.Name != "sync" {
		return false, false
	}
	switch se.Sel.Name {
	case "RWMutex":
		return true, true
	case "Mutex":
		return false, true
	}
	return false, false
}

// pkgInfo is a purely syntactic summary of the mutexes of one package directory.
type pkgInfo struct {
	fset        *token.FileSet
	files       map[string]*ast.File
	name        string
	mutexField  map[string]bool     // field name -> is RW, for fields of type sync.(RW)Mutex
	mutexStruct map[string]bool     // struct type name -> is RW, for structs embedding sync.(RW)Mutex
	structField map[string]string   // field name -> struct type name (for fields of type T or *T, T in mutexStruct)
	mutexVar    map[string]bool     // package-level var of type sync.(RW)Mutex -> is RW
	pkgVars     map[string]ast.Expr // package-level var -> declared type
	structs     map[string]*ast.StructType
}

func baseTypeName(e ast.Expr) string {
	switch t := e.(type) {
	case *ast.StarExpr:
		return baseTypeName(t.X)
	case *ast.Ident:
		return t.Name
	}
	return ""
}

func loadPkg(dir string) (*pkgInfo, error) {
	p := &pkgInfo{fset: token.NewFileSet(), files: map[string]*ast.File{}, mutexField: map[string]bool{}, mutexStruct: map[string]bool{},
		structField: map[string]string{}, mutexVar: map[string]bool{}, structs: map[string]*ast.StructType{}, pkgVars: map[string]ast.Expr{}}
	ents, err := os.ReadDir(dir)
	if err != nil {
		return nil, err
	}
	for _, e := range ents {
		n := e.Name()
		if e.IsDir() || !strings.HasSuffix(n, ".go") || strings.HasSuffix(n, "_test.go") {
			continue
		}
		f, err := parser.ParseFile(p.fset, filepath.Join(dir, n), nil, parser.ParseComments)
		if err != nil {
			return nil, err
		}
		p.files[n] = f
		p.name = f.Name.Name
	}
	for _, f := range p.files {
		for _, d := range f.Decls {
			gd, ok := d.(*ast.GenDecl)
			if !ok {
				continue
			}
			for _, sp := range gd.Specs {
				switch s := sp.(type) {
				case *ast.TypeSpec:
					st, ok := s.Type.(*ast.StructType)
					if !ok {
						continue
					}
					p.structs[s.Name.Name] = st
					for _, fl := range st.Fields.List {
						if rw, ok := isSyncMutex(fl.Type); ok {
							if len(fl.Names) == 0 {
								p.mutexStruct[s.Name.Name] = rw
							}
							for _, nm := range fl.Names {
								p.mutexField[nm.Name] = rw
							}
						}
					}
				case *ast.ValueSpec:
					if gd.Tok == token.VAR && s.Type != nil {
						for _, nm := range s.Names {
							p.pkgVars[nm.Name] = s.Type
						}
						if rw, ok := isSyncMutex(s.Type); ok {
							for _, nm := range s.Names {
								p.mutexVar[nm.Name] = rw
							}
						}
					}
				}
			}
		}
	}
	for _, st := range p.structs {
		for _, fl := range st.Fields.List {
			if bn := baseTypeName(fl.Type); bn != "" {
				if _, ok := p.mutexStruct[bn]; ok {
					for _, nm := range fl.Names {
						p.structField[nm.Name] = bn
					}
				}
			}
		}
	}
	return p, nil
}

// typeOf resolves, purely syntactically, the declared type of an expression made of a
// receiver/parameter/package variable followed by field selections of structs declared in this
// package. nil = unknown (the caller then refuses to rewrite).
func (p *pkgInfo) typeOf(x ast.Expr, locals map[string]ast.Expr) ast.Expr {
	switch t := x.(type) {
	case *ast.Ident:
		if ty, ok := locals[t.Name]; ok {
			return ty
		}
		if ty, ok := p.pkgVars[t.Name]; ok {
			return ty
		}
	case *ast.SelectorExpr:
		bt := p.typeOf(t.X, locals)
		if bt == nil {
			return nil
		}
		st := p.structs[baseTypeName(bt)]
		if st == nil {
			return nil
		}
		for _, fl := range st.Fields.List {
			for _, nm := range fl.Names {
				if nm.Name == t.Sel.Name {
					return fl.Type
				}
			}
		}
	}
	return nil
}

// lockable decides whether expression x denotes a sync.(RW)Mutex, or a (pointer to a) struct of
// this package that embeds one.
func (p *pkgInfo) lockable(x ast.Expr, locals map[string]ast.Expr) (rw bool, ok bool) {
	ty := p.typeOf(x, locals)
	if ty == nil {
		return false, false
	}
	if rw, ok := isSyncMutex(ty); ok {
		return rw, true
	}
	if rw, ok := p.mutexStruct[baseTypeName(ty)]; ok {
		return rw, true
	}
	return false, false
}

type rewriter struct {
	p         *pkgInfo
	file      string // base name
	qual      string // "" inside txnpool/common, "tc." elsewhere
	yields    bool   // insert per-statement yields
	rangeOver string // map field whose range loops are redirected (only with yields)
	recv      string
	locals    map[string]ast.Expr
	nLock     int
	nUnlock   int
	nRecv     int
	nRange    int
	nYield    int
	err       error
}

func (r *rewriter) site(pos token.Pos) ast.Expr {
	ps := r.p.fset.Position(pos)
	return &ast.BasicLit{Kind: token.STRING, Value: strconv.Quote(fmt.Sprintf("%s:%d", r.file, ps.Line))}
}

func (r *rewriter) fn(name string) ast.Expr { return ast.NewIdent(r.qual + name) }

func sel(x ast.Expr, name string) ast.Expr {
	return &ast.SelectorExpr{X: x, Sel: ast.NewIdent(name)}
}

// lockCall recognises X.Lock() / X.RLock() / X.Unlock() / X.RUnlock() with no arguments.
func lockCall(e ast.Expr) (x ast.Expr, method string, ok bool) {
	c, is := e.(*ast.CallExpr)
	if !is || len(c.Args) != 0 {
		return nil, "", false
	}
	s, is := c.Fun.(*ast.SelectorExpr)
	if !is {
		return nil, "", false
	}
	switch s.Sel.Name {
	case "Lock", "RLock", "Unlock", "RUnlock":
		return s.X, s.Sel.Name, true
	}
	return nil, "", false
}

func (r *rewriter) rewriteLock(call ast.Expr, pos token.Pos) ast.Expr {
	x, m, ok := lockCall(call)
	if !ok {
		return nil
	}
	rw, known := r.p.lockable(x, r.locals)
	if !known {
		r.err = fmt.Errorf("%s: %s() on %s: not a mutex this tool can identify", r.p.fset.Position(pos), m, exprString(r.p.fset, x))
		return nil
	}
	if (m == "RLock" || m == "RUnlock") && !rw {
		r.err = fmt.Errorf("%s: %s on a plain Mutex", r.p.fset.Position(pos), m)
		return nil
	}
	switch m {
	case "Lock":
		r.nLock++
		return &ast.CallExpr{Fun: r.fn("SimLock"), Args: []ast.Expr{sel(x, "TryLock"), sel(x, "Lock"), r.site(pos)}}
	case "RLock":
		r.nLock++
		return &ast.CallExpr{Fun: r.fn("SimLock"), Args: []ast.Expr{sel(x, "TryRLock"), sel(x, "RLock"), r.site(pos)}}
	default:
		r.nUnlock++
		return &ast.CallExpr{Fun: r.fn("SimUnlock"), Args: []ast.Expr{sel(x, m)}}
	}
}

func (r *rewriter) yieldStmt(pos token.Pos) ast.Stmt {
	r.nYield++
	// if y := SimYield; y != nil { y(site) }  -- kept as a plain call to a helper for brevity
	return &ast.ExprStmt{X: &ast.CallExpr{Fun: r.fn("SimStep"), Args: []ast.Expr{r.site(pos)}}}
}

func (r *rewriter) stmts(list []ast.Stmt) []ast.Stmt {
	var out []ast.Stmt
	for _, s := range list {
		sync := false
		switch t := s.(type) {
		case *ast.ExprStmt:
			if nc := r.rewriteLock(t.X, t.Pos()); nc != nil {
				t.X = nc
				sync = true
			} else if u, ok := t.X.(*ast.UnaryExpr); ok && u.Op == token.ARROW {
				// bare receive statement: <-X
				r.nRecv++
				try := &ast.FuncLit{Type: &ast.FuncType{Params: &ast.FieldList{}, Results: &ast.FieldList{List: []*ast.Field{{Type: ast.NewIdent("bool")}}}},
					Body: &ast.BlockStmt{List: []ast.Stmt{
						&ast.SelectStmt{Body: &ast.BlockStmt{List: []ast.Stmt{
							&ast.CommClause{Comm: &ast.ExprStmt{X: &ast.UnaryExpr{Op: token.ARROW, X: u.X}}, Body: []ast.Stmt{&ast.ReturnStmt{Results: []ast.Expr{ast.NewIdent("true")}}}},
							&ast.CommClause{Comm: nil, Body: []ast.Stmt{&ast.ReturnStmt{Results: []ast.Expr{ast.NewIdent("false")}}}},
						}}},
					}}}
				block := &ast.FuncLit{Type: &ast.FuncType{Params: &ast.FieldList{}},
					Body: &ast.BlockStmt{List: []ast.Stmt{&ast.ExprStmt{X: &ast.UnaryExpr{Op: token.ARROW, X: u.X}}}}}
				t.X = &ast.CallExpr{Fun: r.fn("SimRecv"), Args: []ast.Expr{try, block, r.site(t.Pos())}}
				sync = true
			}
		case *ast.DeferStmt:
			if nc := r.rewriteLock(t.Call, t.Pos()); nc != nil {
				t.Call = nc.(*ast.CallExpr)
				sync = true
			}
		}
		if !sync {
			r.inner(s)
			if r.yields {
				out = append(out, r.yieldStmt(s.Pos()))
			}
		}
		out = append(out, s)
	}
	return out
}

func (r *rewriter) block(b *ast.BlockStmt) {
	if b != nil {
		b.List = r.stmts(b.List)
	}
}

// inner descends into the nested blocks of a statement.
func (r *rewriter) inner(s ast.Stmt) {
	switch t := s.(type) {
	case *ast.BlockStmt:
		r.block(t)
	case *ast.IfStmt:
		r.block(t.Body)
		if t.Else != nil {
			r.inner(t.Else)
		}
	case *ast.ForStmt:
		r.block(t.Body)
	case *ast.RangeStmt:
		if r.rangeOver != "" {
			if se, ok := t.X.(*ast.SelectorExpr); ok && se.Sel.Name == r.rangeOver {
				if id, ok := se.X.(*ast.Ident); ok && id.Name == r.recv {
					keyOK := t.Key == nil
					if k, ok := t.Key.(*ast.Ident); ok && k.Name == "_" {
						keyOK = true
					}
					if !keyOK || t.Value == nil {
						r.err = fmt.Errorf("%s: range over the pool map uses the key; cannot redirect it", r.p.fset.Position(t.Pos()))
					} else {
						t.X = &ast.CallExpr{Fun: ast.NewIdent("simEntries"), Args: []ast.Expr{t.X}}
						r.nRange++
					}
				}
			}
		}
		r.block(t.Body)
	case *ast.SwitchStmt:
		r.clauses(t.Body)
	case *ast.TypeSwitchStmt:
		r.clauses(t.Body)
	case *ast.SelectStmt:
		r.clauses(t.Body)
	case *ast.LabeledStmt:
		r.inner(t.Stmt)
	}
}

func (r *rewriter) clauses(b *ast.BlockStmt) {
	for _, c := range b.List {
		switch cc := c.(type) {
		case *ast.CaseClause:
			cc.Body = r.stmts(cc.Body)
		case *ast.CommClause:
			cc.Body = r.stmts(cc.Body)
		}
	}
}

func (r *rewriter) fun(fd *ast.FuncDecl) {
	r.locals = map[string]ast.Expr{}
	r.recv = ""
	add := func(fl *ast.FieldList) {
		if fl == nil {
			return
		}
		for _, f := range fl.List {
			for _, nm := range f.Names {
				r.locals[nm.Name] = f.Type
			}
		}
	}
	add(fd.Recv)
	add(fd.Type.Params)
	if fd.Recv != nil && len(fd.Recv.List) == 1 && len(fd.Recv.List[0].Names) == 1 {
		r.recv = fd.Recv.List[0].Names[0].Name
	}
	r.block(fd.Body)
}

var lockRe = regexp.MustCompile(`\.(R?Lock)\(\)`)
var unlockRe = regexp.MustCompile(`\.(R?Unlock)\(\)`)

// countFuncLits reports whether the function contains closures (their bodies are not visited
// by the rewriter, so a lock inside one would escape).
func render(fset *token.FileSet, f *ast.File, marker string) ([]byte, error) {
	// comments are dropped: go/printer places them by position and freshly inserted nodes have
	// none, so a line comment could otherwise land in front of code
	f.Comments = nil
	var b bytes.Buffer
	b.WriteString("// Code generated by /verif/tools/overlay.d/pool from " + fset.Position(f.Pos()).Filename + " (verification harness overlay). NOT part of /repo.\n")
	if err := printer.Fprint(&b, fset, f); err != nil {
		return nil, err
	}
	b.WriteString("\n" + marker + "\n")
	return format.Source(b.Bytes())
}

func importPathOf(f *ast.File, qualifier string) string {
	for _, im := range f.Imports {
		path, _ := strconv.Unquote(im.Path.Value)
		name := filepath.Base(path)
		if im.Name != nil {
			name = im.Name.Name
		}
		if name == qualifier {
			return path
		}
	}
	return ""
}

const shimTmpl = `// Code generated by /verif/tools/overlay.d/pool (verification harness overlay). NOT part of /repo.
package %s

// Scheduler shim of the polysim "pool" engine. All hooks are nil by default, in which case
// every helper below performs exactly the original blocking operation.

// SimYield, when set, is called at every instrumented scheduling point with its source site.
var SimYield func(site string)

// SimNote, when set, is told about non-blocking synchronisation events ("unlock").
var SimNote func(kind string)

// SimOrder, when set together with SimYield, returns the permutation in which a map of n
// entries (keys sorted) is iterated by the instrumented pool methods.
var SimOrder func(n int) []int

// SimHooks is a registry of accessor functions registered by overlay-added files.
var SimHooks = map[string]interface{}{}

// SimRewritten records which source files were replaced by instrumented copies.
var SimRewritten = map[string]bool{}

// SimStep is a scheduling point.
func SimStep(site string) {
	if y := SimYield; y != nil {
		y(site)
	}
}

// SimLock acquires a mutex: blocking when no scheduler is installed; otherwise it yields once
// and then spins through try+yield so that a task never blocks the OS thread on a mutex held
// by a parked task.
func SimLock(try func() bool, lock func(), site string) {
	y := SimYield
	if y == nil {
		lock()
		return
	}
	y(site)
	for !try() {
		y("lockwait " + site)
	}
	if n := SimNote; n != nil {
		n("lock")
	}
}

// SimUnlock releases a mutex.
func SimUnlock(unlock func()) {
	unlock()
	if n := SimNote; n != nil {
		n("unlock")
	}
}

// SimRecv performs a channel receive: blocking when no scheduler is installed, try+yield otherwise.
func SimRecv(try func() bool, block func(), site string) {
	y := SimYield
	if y == nil {
		block()
		return
	}
	y(site)
	for !try() {
		y("recvwait " + site)
	}
}
`

func main() {
	if len(os.Args) != 3 {
		fmt.Fprintln(os.Stderr, "usage: poolrewrite <repo> <outdir>")
		os.Exit(0)
	}
	repo := os.Args[1]
	outDir = os.Args[2]
	os.MkdirAll(outDir, 0o755)
	defer func() {
		for _, l := range emitted {
			fmt.Println(l)
		}
	}()
	commonDir := filepath.Join(repo, "txnpool", "common")
	procDir := filepath.Join(repo, "txnpool", "proc")
	cp, err := loadPkg(commonDir)
	if err != nil || cp.name == "" {
		note("cannot parse %s: %v (nothing emitted)", commonDir, err)
		return
	}
	// names the shim defines must be free
	for fn, f := range cp.files {
		for _, d := range f.Decls {
			names := []string{}
			switch t := d.(type) {
			case *ast.FuncDecl:
				if t.Recv == nil {
					names = append(names, t.Name.Name)
				}
			case *ast.GenDecl:
				for _, sp := range t.Specs {
					switch s := sp.(type) {
					case *ast.ValueSpec:
						for _, n := range s.Names {
							names = append(names, n.Name)
						}
					case *ast.TypeSpec:
						names = append(names, s.Name.Name)
					}
				}
			}
			for _, n := range names {
				if strings.HasPrefix(n, "Sim") && (n == "SimYield" || n == "SimNote" || n == "SimOrder" || n == "SimHooks" || n == "SimRewritten" || n == "SimStep" || n == "SimLock" || n == "SimUnlock" || n == "SimRecv") || n == "simEntries" {
					note("%s already declares %s (nothing emitted)", fn, n)
					return
				}
			}
		}
	}
	emit(filepath.Join(commonDir, "zz_simsched.go"), "pool_zz_simsched.go", []byte(fmt.Sprintf(shimTmpl, cp.name)))

	rewritePool(cp, commonDir)
	rewriteKnobs(cp, commonDir, repo)

	pp, err := loadPkg(procDir)
	if err != nil || pp.name == "" {
		note("cannot parse %s: %v", procDir, err)
		return
	}
	tcPath := ""
	if f := pp.files["txnpool_actor.go"]; f != nil {
		tcPath = importPathOf(f, "tc")
	}
	if tcPath == "" || !strings.HasSuffix(tcPath, "/txnpool/common") {
		note("txnpool_actor.go does not import txnpool/common as tc (proc items skipped)")
		return
	}
	emitReset(pp, procDir, tcPath)
	if rewriteProc(pp, procDir, tcPath) {
		emitWorkerHooks(pp, procDir, tcPath)
	}
}

// ---------------------------------------------------------------------------------------------

func rewritePool(cp *pkgInfo, dir string) {
	const fn = "transaction_pool.go"
	f := cp.files[fn]
	if f == nil {
		note("%s missing", fn)
		return
	}
	// the pool type: a struct embedding sync.RWMutex with exactly one map field
	poolType, mapField := "", ""
	var mapType *ast.MapType
	for _, d := range f.Decls {
		gd, ok := d.(*ast.GenDecl)
		if !ok {
			continue
		}
		for _, sp := range gd.Specs {
			ts, ok := sp.(*ast.TypeSpec)
			if !ok {
				continue
			}
			st, ok := ts.Type.(*ast.StructType)
			if !ok {
				continue
			}
			if rw, ok := cp.mutexStruct[ts.Name.Name]; !ok || !rw {
				continue
			}
			n := 0
			for _, fl := range st.Fields.List {
				if mt, ok := fl.Type.(*ast.MapType); ok && len(fl.Names) == 1 {
					n++
					mapField, mapType = fl.Names[0].Name, mt
				}
			}
			if n == 1 {
				poolType = ts.Name.Name
			}
		}
	}
	if poolType == "" {
		note("%s: no struct embedding sync.RWMutex with exactly one map field (pool rewrite skipped)", fn)
		return
	}
	src, _ := os.ReadFile(filepath.Join(dir, fn))
	wantLock, wantUnlock := len(lockRe.FindAll(src, -1)), len(unlockRe.FindAll(src, -1))
	r := &rewriter{p: cp, file: fn, qual: "", yields: true, rangeOver: mapField}
	methods := 0
	for _, d := range f.Decls {
		fd, ok := d.(*ast.FuncDecl)
		if !ok || fd.Body == nil {
			continue
		}
		hasLit := false
		ast.Inspect(fd.Body, func(n ast.Node) bool {
			if _, ok := n.(*ast.FuncLit); ok {
				hasLit = true
			}
			return true
		})
		if fd.Recv != nil && len(fd.Recv.List) == 1 && baseTypeName(fd.Recv.List[0].Type) == poolType {
			if hasLit {
				note("%s: method %s contains a closure (pool rewrite skipped)", fn, fd.Name.Name)
				return
			}
			r.fun(fd)
			methods++
		}
	}
	if r.err != nil {
		note("%v (pool rewrite skipped)", r.err)
		return
	}
	if r.nLock != wantLock || r.nUnlock != wantUnlock || r.nLock == 0 || r.nLock != r.nUnlock {
		note("%s: rewrote %d/%d lock and %d/%d unlock calls (pool rewrite skipped)", fn, r.nLock, wantLock, r.nUnlock, wantUnlock)
		return
	}
	// every range over the map anywhere in the file must have been redirected
	left := 0
	ast.Inspect(f, func(n ast.Node) bool {
		if rs, ok := n.(*ast.RangeStmt); ok {
			if se, ok := rs.X.(*ast.SelectorExpr); ok && se.Sel.Name == mapField {
				left++
			}
		}
		return true
	})
	if left != 0 {
		note("%s: %d range loops over the map could not be redirected (pool rewrite skipped)", fn, left)
		return
	}
	keyT, valT := exprString(cp.fset, mapType.Key), exprString(cp.fset, mapType.Value)
	imports := ""
	for _, t := range []ast.Expr{mapType.Key, mapType.Value} {
		ast.Inspect(t, func(n ast.Node) bool {
			if se, ok := n.(*ast.SelectorExpr); ok {
				if id, ok := se.X.(*ast.Ident); ok {
					if p := importPathOf(f, id.Name); p != "" && !strings.Contains(imports, strconv.Quote(p)) {
						imports += fmt.Sprintf("\t%s %s\n", id.Name, strconv.Quote(p))
					}
				}
			}
			return true
		})
	}
	out, err := render(cp.fset, f, fmt.Sprintf("func init() { SimRewritten[%q] = true }", fn))
	if err != nil {
		note("%s: %v (pool rewrite skipped)", fn, err)
		return
	}
	helper := fmt.Sprintf(`// Code generated by /verif/tools/overlay.d/pool (verification harness overlay). NOT part of /repo.
package %[1]s

import (
	"fmt"
	"sort"

%[2]s)

// simEntries returns the values of the pool map: in Go's (random) map order when no scheduler
// is installed, otherwise with the keys sorted and then permuted by SimOrder (the iteration
// order becomes a plan-chosen adversary instead of the runtime's hidden random seed).
func simEntries(m map[%[3]s]%[4]s) []%[4]s {
	out := make([]%[4]s, 0, len(m))
	if SimYield == nil {
		for _, v := range m {
			out = append(out, v)
		}
		return out
	}
	keys := make([]%[3]s, 0, len(m))
	for k := range m {
		keys = append(keys, k)
	}
	sort.Slice(keys, func(i, j int) bool { return fmt.Sprintf("%%x", keys[i]) < fmt.Sprintf("%%x", keys[j]) })
	if o := SimOrder; o != nil {
		perm := o(len(keys))
		if len(perm) == len(keys) {
			seen := make([]bool, len(keys))
			ok := true
			for _, i := range perm {
				if i < 0 || i >= len(keys) || seen[i] {
					ok = false
					break
				}
				seen[i] = true
			}
			if ok {
				for _, i := range perm {
					out = append(out, m[keys[i]])
				}
				return out
			}
		}
	}
	for _, k := range keys {
		out = append(out, m[k])
	}
	return out
}

func init() {
	// lock-free accessors for the scheduler's invariant monitor (only called while every task is parked)
	SimHooks["pool.len"] = func(tp *%[5]s) int { return len(tp.%[6]s) }
	SimHooks["pool.keys"] = func(tp *%[5]s) []%[3]s {
		keys := make([]%[3]s, 0, len(tp.%[6]s))
		for k := range tp.%[6]s {
			keys = append(keys, k)
		}
		sort.Slice(keys, func(i, j int) bool { return fmt.Sprintf("%%x", keys[i]) < fmt.Sprintf("%%x", keys[j]) })
		return keys
	}
}
`, cp.name, imports, keyT, valT, poolType, mapField)
	hb, err := format.Source([]byte(helper))
	if err != nil {
		note("helper: %v (pool rewrite skipped)", err)
		return
	}
	emit(filepath.Join(dir, fn), "pool_transaction_pool.go", out)
	emit(filepath.Join(dir, "zz_simpool.go"), "pool_zz_simpool.go", hb)
	note("%s: %d methods, %d lock sites, %d yields, %d map loops", fn, methods, r.nLock, r.nYield, r.nRange)
}

// ---------------------------------------------------------------------------------------------

func rewriteKnobs(cp *pkgInfo, dir, repo string) {
	const fn = "txnpool_common.go"
	f := cp.files[fn]
	if f == nil {
		return
	}
	knobs := map[string]string{"MAX_CAPACITY": "", "MAX_LIMITATION": ""}
	for _, d := range f.Decls {
		gd, ok := d.(*ast.GenDecl)
		if !ok || gd.Tok != token.CONST {
			continue
		}
		var keep []ast.Spec
		for _, sp := range gd.Specs {
			vs := sp.(*ast.ValueSpec)
			drop := false
			if len(vs.Names) == 1 && len(vs.Values) == 1 && vs.Type == nil {
				if _, isKnob := knobs[vs.Names[0].Name]; isKnob {
					if lit, ok := vs.Values[0].(*ast.BasicLit); ok && lit.Kind == token.INT && knobs[vs.Names[0].Name] == "" {
						knobs[vs.Names[0].Name] = lit.Value
						drop = true
					} else {
						note("%s: %s is not a single integer literal (knobs skipped)", fn, vs.Names[0].Name)
						return
					}
				}
			}
			// no other constant may be derived from a knob, and iota blocks are left alone
			for _, v := range vs.Values {
				bad := false
				ast.Inspect(v, func(n ast.Node) bool {
					if id, ok := n.(*ast.Ident); ok {
						if _, isKnob := knobs[id.Name]; isKnob {
							bad = true
						}
					}
					return true
				})
				if bad {
					note("%s: a constant is derived from a knob (knobs skipped)", fn)
					return
				}
			}
			if !drop {
				keep = append(keep, sp)
			}
		}
		gd.Specs = keep
	}
	for k, v := range knobs {
		if v == "" {
			note("%s: %s not found (knobs skipped)", fn, k)
			return
		}
	}
	// every use in the repository must be one of the known integer contexts
	okUse := regexp.MustCompile(`((>=|<=|==|!=|>|<) tc\.MAX_(CAPACITY|LIMITATION)\b|make\(chan struct\{\}, tc\.MAX_LIMITATION\))`)
	anyUse := regexp.MustCompile(`\bMAX_(CAPACITY|LIMITATION)\b`)
	bad := false
	filepath.Walk(repo, func(path string, info os.FileInfo, err error) error {
		if err != nil {
			return nil
		}
		if info.IsDir() {
			if n := info.Name(); n == ".git" || n == "vendor" || n == "testdata" {
				return filepath.SkipDir
			}
			return nil
		}
		if !strings.HasSuffix(path, ".go") || strings.HasSuffix(path, "_test.go") || path == filepath.Join(dir, fn) {
			return nil
		}
		b, err := os.ReadFile(path)
		if err != nil || !anyUse.Match(b) {
			return nil
		}
		for _, line := range strings.Split(string(b), "\n") {
			if anyUse.MatchString(line) && len(okUse.FindAllString(line, -1)) != len(anyUse.FindAllString(line, -1)) {
				note("%s: unexpected use of a knob: %s", path, strings.TrimSpace(line))
				bad = true
			}
		}
		return nil
	})
	if bad {
		note("knobs skipped")
		return
	}
	marker := fmt.Sprintf("// Knobs of the verification overlay: variables with the original values of the constants.\nvar (\n\tMAX_CAPACITY = %s\n\tMAX_LIMITATION = %s\n)\n\nfunc init() {\n\tSimRewritten[%q] = true\n\t// set both knobs, return the previous values (call before NewTxPoolServer: the slot channel is sized at init)\n\tSimHooks[\"knobs.set\"] = func(capacity, limitation int) (int, int) {\n\t\toc, ol := MAX_CAPACITY, MAX_LIMITATION\n\t\tMAX_CAPACITY, MAX_LIMITATION = capacity, limitation\n\t\treturn oc, ol\n\t}\n}",
		knobs["MAX_CAPACITY"], knobs["MAX_LIMITATION"], fn)
	// remove empty const blocks
	var decls []ast.Decl
	for _, d := range f.Decls {
		if gd, ok := d.(*ast.GenDecl); ok && gd.Tok == token.CONST && len(gd.Specs) == 0 {
			continue
		}
		decls = append(decls, d)
	}
	f.Decls = decls
	out, err := render(cp.fset, f, marker)
	if err != nil {
		note("%s: %v (knobs skipped)", fn, err)
		return
	}
	emit(filepath.Join(dir, fn), "pool_txnpool_common.go", out)
}

// ---------------------------------------------------------------------------------------------

func rewriteProc(pp *pkgInfo, dir, tcPath string) bool {
	type res struct {
		fn  string
		out []byte
	}
	var results []res
	for _, fn := range []string{"txnpool_server.go", "txnpool_worker.go", "txnpool_actor.go"} {
		f := pp.files[fn]
		if f == nil {
			note("%s missing (proc rewrite skipped)", fn)
			return false
		}
		if importPathOf(f, "tc") != tcPath {
			note("%s does not import %s as tc (proc rewrite skipped)", fn, tcPath)
			return false
		}
		src, _ := os.ReadFile(filepath.Join(dir, fn))
		wantLock, wantUnlock := len(lockRe.FindAll(src, -1)), len(unlockRe.FindAll(src, -1))
		r := &rewriter{p: pp, file: fn, qual: "tc."}
		for _, d := range f.Decls {
			if fd, ok := d.(*ast.FuncDecl); ok && fd.Body != nil {
				r.fun(fd)
			}
		}
		if r.err != nil {
			note("%v (proc rewrite skipped)", r.err)
			return false
		}
		if r.nLock != wantLock || r.nUnlock != wantUnlock {
			note("%s: rewrote %d/%d lock and %d/%d unlock calls (proc rewrite skipped)", fn, r.nLock, wantLock, r.nUnlock, wantUnlock)
			return false
		}
		out, err := render(pp.fset, f, fmt.Sprintf("func init() { tc.SimRewritten[%q] = true }", fn))
		if err != nil {
			note("%s: %v (proc rewrite skipped)", fn, err)
			return false
		}
		note("%s: %d lock sites, %d unlock sites, %d receives", fn, r.nLock, r.nUnlock, r.nRecv)
		results = append(results, res{fn, out})
	}
	for _, r := range results {
		emit(filepath.Join(dir, r.fn), "pool_"+r.fn, r.out)
	}
	return true
}

func findVar(pp *pkgInfo, file, name string) ast.Expr {
	f := pp.files[file]
	if f == nil {
		return nil
	}
	for _, d := range f.Decls {
		gd, ok := d.(*ast.GenDecl)
		if !ok || gd.Tok != token.VAR {
			continue
		}
		for _, sp := range gd.Specs {
			vs := sp.(*ast.ValueSpec)
			for i, n := range vs.Names {
				if n.Name != name {
					continue
				}
				if vs.Type != nil {
					return vs.Type
				}
				if i < len(vs.Values) {
					// var x = make(T)
					if c, ok := vs.Values[i].(*ast.CallExpr); ok {
						if id, ok := c.Fun.(*ast.Ident); ok && id.Name == "make" && len(c.Args) >= 1 {
							return c.Args[0]
						}
					}
				}
			}
		}
	}
	return nil
}

func emitReset(pp *pkgInfo, dir, tcPath string) {
	const fn = "txnpool_actor.go"
	mt := findVar(pp, fn, "permittedAddrMap")
	lt := findVar(pp, fn, "lastTime")
	lk := findVar(pp, fn, "lock")
	m, ok := mt.(*ast.MapType)
	if !ok || lt == nil || lk == nil || exprString(pp.fset, lt) != "int64" {
		note("%s: permittedAddrMap/lastTime/lock not as expected (reset hook skipped)", fn)
		return
	}
	if rw, ok := isSyncMutex(lk); !ok || !rw {
		note("%s: lock is not a sync.RWMutex (reset hook skipped)", fn)
		return
	}
	imports := fmt.Sprintf("\ttc %s\n", strconv.Quote(tcPath))
	ast.Inspect(m, func(n ast.Node) bool {
		if se, ok := n.(*ast.SelectorExpr); ok {
			if id, ok := se.X.(*ast.Ident); ok {
				if p := importPathOf(pp.files[fn], id.Name); p != "" && !strings.Contains(imports, strconv.Quote(p)) {
					imports += fmt.Sprintf("\t%s %s\n", id.Name, strconv.Quote(p))
				}
			}
		}
		return true
	})
	src := fmt.Sprintf(`// Code generated by /verif/tools/overlay.d/pool (verification harness overlay). NOT part of /repo.
package %s

import (
%s)

func init() {
	// forget the process-wide permitted-address cache (so that simulated runs sharing one
	// process do not see each other's consensus addresses or refresh time)
	tc.SimHooks["proc.resetPermitted"] = func() {
		lock.Lock()
		permittedAddrMap = make(%s)
		lastTime = 0
		lock.Unlock()
	}
	tc.SimHooks["proc.permittedLen"] = func() int {
		lock.RLock()
		defer lock.RUnlock()
		return len(permittedAddrMap)
	}
}
`, pp.name, imports, exprString(pp.fset, m))
	b, err := format.Source([]byte(src))
	if err != nil {
		note("reset hook: %v", err)
		return
	}
	emit(filepath.Join(dir, "zz_simreset.go"), "pool_zz_simreset.go", b)
}

func hasMethod(pp *pkgInfo, typ, name string, nparams int) bool {
	for _, f := range pp.files {
		for _, d := range f.Decls {
			fd, ok := d.(*ast.FuncDecl)
			if !ok || fd.Recv == nil || fd.Name.Name != name || len(fd.Recv.List) != 1 || baseTypeName(fd.Recv.List[0].Type) != typ {
				continue
			}
			n := 0
			for _, p := range fd.Type.Params.List {
				if len(p.Names) == 0 {
					n++
				}
				n += len(p.Names)
			}
			return n == nparams
		}
	}
	return false
}

func fieldType(pp *pkgInfo, typ, field string) string {
	st := pp.structs[typ]
	if st == nil {
		return ""
	}
	for _, fl := range st.Fields.List {
		for _, n := range fl.Names {
			if n.Name == field {
				return exprString(pp.fset, fl.Type)
			}
		}
	}
	return ""
}

func emitWorkerHooks(pp *pkgInfo, dir, tcPath string) {
	sf := pp.files["txnpool_server.go"]
	wf := pp.files["txnpool_worker.go"]
	want := []struct{ typ, field, t string }{
		{"TXPoolServer", "workers", "[]txPoolWorker"},
		{"TXPoolServer", "allPendingTxs", "map[common.Uint256]*serverPendingTx"},
		{"TXPoolServer", "txPool", "*tc.TXPool"},
		{"txPoolWorker", "rcvTXCh", "chan *tx.Transaction"},
		{"txPoolWorker", "stfTxCh", "chan *tx.Transaction"},
		{"txPoolWorker", "rspCh", "chan *types.CheckResponse"},
		{"txPoolWorker", "pendingTxList", "map[common.Uint256]*pendingTx"},
	}
	for _, w := range want {
		if got := fieldType(pp, w.typ, w.field); got != w.t {
			note("%s.%s has type %q, expected %q (worker hooks skipped)", w.typ, w.field, got, w.t)
			return
		}
	}
	for _, m := range []struct {
		name string
		n    int
	}{{"init", 2}, {"verifyTx", 1}, {"verifyStateful", 1}, {"handleRsp", 1}, {"handleTimeoutEvent", 0}} {
		if !hasMethod(pp, "txPoolWorker", m.name, m.n) {
			note("txPoolWorker.%s/%d missing (worker hooks skipped)", m.name, m.n)
			return
		}
	}
	commonPath := importPathOf(sf, "common")
	if commonPath == "" || wf == nil {
		note("txnpool_server.go does not import common (worker hooks skipped)")
		return
	}
	src := fmt.Sprintf(`// Code generated by /verif/tools/overlay.d/pool (verification harness overlay). NOT part of /repo.
package %s

import (
	"fmt"
	"sort"

	common %s
	tc %s
)

func simSortHashes(hs []common.Uint256) {
	sort.Slice(hs, func(i, j int) bool { return fmt.Sprintf("%%x", hs[i]) < fmt.Sprintf("%%x", hs[j]) })
}

func init() {
	// create n workers WITHOUT starting their goroutines (server built with NewTxPoolServer(0, ...))
	tc.SimHooks["proc.addWorkers"] = func(s *TXPoolServer, n int) {
		s.workers = make([]txPoolWorker, n)
		for i := 0; i < n; i++ {
			s.workers[i].init(uint8(i), s)
		}
	}
	// one iteration of the worker loop body (txPoolWorker.start) for a chosen case:
	// 0 = rcvTXCh, 1 = stfTxCh, 2 = rspCh, 3 = timer. Reports whether a message was handled.
	tc.SimHooks["proc.workerStep"] = func(s *TXPoolServer, w int, which int) bool {
		if w < 0 || w >= len(s.workers) {
			return false
		}
		worker := &s.workers[w]
		switch which {
		case 0:
			select {
			case rcvTx, ok := <-worker.rcvTXCh:
				if ok {
					worker.verifyTx(rcvTx)
					return true
				}
			default:
			}
		case 1:
			select {
			case stfTx, ok := <-worker.stfTxCh:
				if ok {
					worker.verifyStateful(stfTx)
					return true
				}
			default:
			}
		case 2:
			select {
			case rsp, ok := <-worker.rspCh:
				if ok {
					worker.handleRsp(rsp)
					return true
				}
			default:
			}
		case 3:
			worker.handleTimeoutEvent()
			return true
		}
		return false
	}
	// queue lengths of worker w: rcvTXCh, stfTxCh, rspCh, pendingTxList
	tc.SimHooks["proc.workerLoad"] = func(s *TXPoolServer, w int) [4]int {
		if w < 0 || w >= len(s.workers) {
			return [4]int{}
		}
		worker := &s.workers[w]
		return [4]int{len(worker.rcvTXCh), len(worker.stfTxCh), len(worker.rspCh), len(worker.pendingTxList)}
	}
	// lock-free snapshot for the invariant monitor (only called while every task is parked):
	// hashes in the server's pending list and in each worker's pending list, sorted.
	tc.SimHooks["proc.pending"] = func(s *TXPoolServer) ([]common.Uint256, [][]common.Uint256) {
		srv := make([]common.Uint256, 0, len(s.allPendingTxs))
		for h := range s.allPendingTxs {
			srv = append(srv, h)
		}
		simSortHashes(srv)
		per := make([][]common.Uint256, len(s.workers))
		for i := range s.workers {
			for h := range s.workers[i].pendingTxList {
				per[i] = append(per[i], h)
			}
			simSortHashes(per[i])
		}
		return srv, per
	}
	tc.SimHooks["proc.pool"] = func(s *TXPoolServer) *tc.TXPool { return s.txPool }
}
`, pp.name, strconv.Quote(commonPath), strconv.Quote(tcPath))
	b, err := format.Source([]byte(src))
	if err != nil {
		note("worker hooks: %v", err)
		return
	}
	emit(filepath.Join(dir, "zz_simworker.go"), "pool_zz_simworker.go", b)
}
