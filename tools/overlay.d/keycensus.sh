#!/bin/bash
# Overlay extension for C17: a generated census of every storage-key construction
# (utils.ConcatKey call site) of the native contracts, added to package native/service/utils
# under build tag verif through the build overlay. /repo is never modified.
# Usage: keycensus.sh <outdir>   (env REPO, default /repo). Prints "<source path>\t<copy path>".
OUT=${1:?out dir}
REPO=${REPO:-/repo}
HERE=$(cd "$(dirname "$0")" && pwd)
mkdir -p "$OUT"
cd "$HERE/keycensus" || exit 0
if GOFLAGS= GO111MODULE=off GOTOOLCHAIN=local go1.26.8 run main.go "$REPO" "$OUT/keycensus_verif.go" 2>"$OUT/keycensus.log"; then
  printf '%s\t%s\n' "$REPO/native/service/utils/keycensus_verif.go" "$OUT/keycensus_verif.go"
else
  # census unavailable: an empty census keeps the build going; the C17 check then reports
  # the census probe as zero (inconclusive), never a verdict
  printf '//go:build verif\n\npackage utils\n\ntype VerifKeySite struct {\n\tPkg, Pos, Contract, ConstPkg, ConstName, Prefix string\n\tResolved bool\n\tParams []string\n\tParamLen int\n}\n\nvar VerifKeyCensus []VerifKeySite\n' > "$OUT/keycensus_verif.go"
  printf '%s\t%s\n' "$REPO/native/service/utils/keycensus_verif.go" "$OUT/keycensus_verif.go"
fi
exit 0
