#!/bin/bash
# Overlay extension of engine E3 "pool" (C36, C37): instrumented copies of the txnpool sources
# (cooperative-scheduler shim, lock/yield rewriting, capacity knobs, worker stepping hooks).
# Usage: pool.sh <outdir>   (env REPO, default /repo). Prints "<source path>\t<copy path>" lines.
# /repo is never modified. See pool/main.go for what exactly is rewritten.
OUT=${1:?out dir}
REPO=${REPO:-/repo}
HERE=$(cd "$(dirname "$0")" && pwd)
mkdir -p "$OUT"
cd "$HERE/pool" || exit 0
# GOPATH mode: the tool imports the standard library only and must not touch any go.mod
GOFLAGS= GO111MODULE=off GOTOOLCHAIN=local go1.26.8 run main.go "$REPO" "$OUT" 2>"$OUT/pool_rewrite.log" || true
exit 0
