// keycensus: syntactic census of every storage-key construction (utils.ConcatKey call site) in
// the native contracts of a polynetwork/poly checkout. Standard library only (go/parser).
// Output: a Go file for package native/service/utils (build tag verif) that lists, per call
// site, the contract the key belongs to, the record-kind prefix (constant identity and value)
// and the shape of the parameter part. The C17 check evaluates layout invariants over it.
//
// usage: main.go <repo> <outfile>
package main

import (
	"bytes"
	"fmt"
	"go/ast"
	"go/parser"
	"go/printer"
	"go/token"
	"os"
	"path/filepath"
	"sort"
	"strconv"
	"strings"
)

const modPath = "github.com/polynetwork/poly/"

type constVal struct {
	val string
	ok  bool
}

type pkgInfo struct {
	dir    string
	consts map[string]constVal
}

var pkgs = map[string]*pkgInfo{}

func loadPkg(repo, rel string) *pkgInfo {
	if p, ok := pkgs[rel]; ok {
		return p
	}
	p := &pkgInfo{dir: rel, consts: map[string]constVal{}}
	pkgs[rel] = p
	fset := token.NewFileSet()
	ents, _ := os.ReadDir(filepath.Join(repo, rel))
	for _, e := range ents {
		n := e.Name()
		if e.IsDir() || !strings.HasSuffix(n, ".go") || strings.HasSuffix(n, "_test.go") {
			continue
		}
		f, err := parser.ParseFile(fset, filepath.Join(repo, rel, n), nil, 0)
		if err != nil {
			continue
		}
		for _, d := range f.Decls {
			gd, ok := d.(*ast.GenDecl)
			if !ok || (gd.Tok != token.CONST && gd.Tok != token.VAR) {
				continue
			}
			for _, s := range gd.Specs {
				vs := s.(*ast.ValueSpec)
				for i, nm := range vs.Names {
					if i < len(vs.Values) {
						if bl, ok := vs.Values[i].(*ast.BasicLit); ok && bl.Kind == token.STRING {
							if v, err := strconv.Unquote(bl.Value); err == nil {
								p.consts[nm.Name] = constVal{v, gd.Tok == token.CONST}
							}
						}
					}
				}
			}
		}
	}
	return p
}

type site struct {
	Pkg, Pos, Contract, ConstPkg, ConstName, Prefix string
	Resolved                                         bool
	Params                                           []string
	ParamLen                                         int // total length of the parameter part, -1 unknown
}

func ownerOf(rel string) string {
	switch {
	case strings.Contains(rel, "/header_sync"):
		return "HeaderSync"
	case strings.Contains(rel, "/cross_chain_manager"):
		return "CrossChainManager"
	case strings.Contains(rel, "/node_manager"):
		return "NodeManager"
	case strings.Contains(rel, "/side_chain_manager"):
		return "SideChainManager"
	case strings.Contains(rel, "/relayer_manager"):
		return "RelayerManager"
	case strings.Contains(rel, "/neo3_state_manager"):
		return "Neo3StateManager"
	case strings.Contains(rel, "/signature_manager"):
		return "SignatureManager"
	}
	return "?" + rel
}

func render(fset *token.FileSet, e ast.Expr) string {
	var b bytes.Buffer
	printer.Fprint(&b, fset, e)
	return b.String()
}

func contractOfExpr(e ast.Expr) (string, bool) {
	if se, ok := e.(*ast.SelectorExpr); ok {
		if strings.HasSuffix(se.Sel.Name, "ContractAddress") && se.Sel.Name != "ContractAddress" {
			return strings.TrimSuffix(se.Sel.Name, "ContractAddress"), true
		}
		if se.Sel.Name == "ContractAddress" { // CurrentContext().ContractAddress
			return "", false
		}
	}
	return "", false
}

func main() {
	repo, out := os.Args[1], os.Args[2]
	root := filepath.Join(repo, "native", "service")
	var sites []site
	filepath.Walk(root, func(path string, info os.FileInfo, err error) error {
		if err != nil || info.IsDir() || !strings.HasSuffix(path, ".go") || strings.HasSuffix(path, "_test.go") {
			return nil
		}
		rel, _ := filepath.Rel(repo, filepath.Dir(path))
		fset := token.NewFileSet()
		f, err := parser.ParseFile(fset, path, nil, 0)
		if err != nil {
			return nil
		}
		imports := map[string]string{} // alias -> rel dir
		for _, im := range f.Imports {
			p, _ := strconv.Unquote(im.Path.Value)
			if !strings.HasPrefix(p, modPath) {
				continue
			}
			r := strings.TrimPrefix(p, modPath)
			alias := filepath.Base(r)
			if im.Name != nil {
				alias = im.Name.Name
			}
			imports[alias] = r
		}
		self := loadPkg(repo, rel)
		for _, d := range f.Decls {
			fd, ok := d.(*ast.FuncDecl)
			if !ok || fd.Body == nil {
				continue
			}
			// local assignments ident := expr (last one wins; good enough for `contract := ...`)
			assigned := map[string]ast.Expr{}
			ast.Inspect(fd.Body, func(n ast.Node) bool {
				if as, ok := n.(*ast.AssignStmt); ok && len(as.Lhs) == len(as.Rhs) {
					for i, l := range as.Lhs {
						if id, ok := l.(*ast.Ident); ok {
							assigned[id.Name] = as.Rhs[i]
						}
					}
				}
				return true
			})
			ast.Inspect(fd.Body, func(n ast.Node) bool {
				call, ok := n.(*ast.CallExpr)
				if !ok {
					return true
				}
				name := ""
				switch fn := call.Fun.(type) {
				case *ast.SelectorExpr:
					name = fn.Sel.Name
				case *ast.Ident:
					name = fn.Name
				}
				if name != "ConcatKey" || len(call.Args) < 1 {
					return true
				}
				s := site{Pkg: rel, Pos: fmt.Sprintf("%s:%d", strings.TrimPrefix(path, repo+"/"), fset.Position(call.Pos()).Line)}
				// contract
				c0 := call.Args[0]
				if id, ok := c0.(*ast.Ident); ok {
					if e, ok := assigned[id.Name]; ok {
						c0 = e
					}
				}
				if c, ok := contractOfExpr(c0); ok {
					s.Contract = c
				} else {
					s.Contract = ownerOf(rel)
				}
				args := call.Args[1:]
				// prefix
				if len(args) > 0 {
					if cv, ok := args[0].(*ast.CallExpr); ok && len(cv.Args) == 1 {
						if at, ok := cv.Fun.(*ast.ArrayType); ok && at.Len == nil {
							switch x := cv.Args[0].(type) {
							case *ast.Ident:
								if v, ok := self.consts[x.Name]; ok {
									s.ConstPkg, s.ConstName, s.Prefix, s.Resolved = rel, x.Name, v.val, true
								}
							case *ast.SelectorExpr:
								if q, ok := x.X.(*ast.Ident); ok {
									if r, ok := imports[q.Name]; ok {
										if v, ok := loadPkg(repo, r).consts[x.Sel.Name]; ok {
											s.ConstPkg, s.ConstName, s.Prefix, s.Resolved = r, x.Sel.Name, v.val, true
										}
									}
								}
							case *ast.BasicLit:
								if x.Kind == token.STRING {
									v, _ := strconv.Unquote(x.Value)
									s.ConstPkg, s.ConstName, s.Prefix, s.Resolved = rel, "lit:"+v, v, true
								}
							}
							if s.Resolved {
								args = args[1:]
							}
						}
					}
				}
				s.ParamLen = 0
				for _, a := range args {
					txt := render(fset, a)
					s.Params = append(s.Params, txt)
					l := -1
					if id, ok := a.(*ast.Ident); ok {
						if e, ok := assigned[id.Name]; ok {
							a = e
						}
					}
					if ce, ok := a.(*ast.CallExpr); ok {
						fn := ""
						switch f := ce.Fun.(type) {
						case *ast.SelectorExpr:
							fn = f.Sel.Name
						case *ast.Ident:
							fn = f.Name
						}
						switch fn {
						case "GetUint64Bytes":
							l = 8
						case "GetUint32Bytes":
							l = 4
						}
					}
					if l < 0 || s.ParamLen < 0 {
						s.ParamLen = -1
					} else {
						s.ParamLen += l
					}
				}
				sites = append(sites, s)
				return true
			})
		}
		return nil
	})
	sort.Slice(sites, func(i, j int) bool { return sites[i].Pos < sites[j].Pos })
	var b bytes.Buffer
	b.WriteString("//go:build verif\n\n// Code generated by /verif/tools/overlay.d/keycensus; overlay only, not part of the repository.\n\npackage utils\n\n")
	b.WriteString("type VerifKeySite struct {\n\tPkg, Pos, Contract, ConstPkg, ConstName, Prefix string\n\tResolved bool\n\tParams []string\n\tParamLen int\n}\n\n")
	b.WriteString("var VerifKeyCensus = []VerifKeySite{\n")
	for _, s := range sites {
		fmt.Fprintf(&b, "\t{%q, %q, %q, %q, %q, %q, %v, %#v, %d},\n", s.Pkg, s.Pos, s.Contract, s.ConstPkg, s.ConstName, s.Prefix, s.Resolved, s.Params, s.ParamLen)
	}
	b.WriteString("}\n")
	if err := os.WriteFile(out, b.Bytes(), 0644); err != nil {
		fmt.Fprintln(os.Stderr, err)
		os.Exit(1)
	}
	fmt.Fprintf(os.Stderr, "keycensus: %d sites\n", len(sites))
}
