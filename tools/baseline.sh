#!/bin/bash
# Runs the repository's own test suite with the verif guard OFF (no -tags verif), default go
# toolchain, without dirtying /repo (scratch -modfile). Usage: tools/baseline.sh [pkgs...]
export GOFLAGS=-mod=mod GOPROXY=off GOSUMDB=off
SCR=$(mktemp -d /dev/shm/polybase.XXXXXX)
trap 'rm -rf "$SCR"' EXIT
cp /repo/go.mod "$SCR/go.mod"; cp /repo/go.sum "$SCR/go.sum"
cd /repo
PK=("$@"); [ ${#PK[@]} -eq 0 ] && PK=(./...)
go test -modfile="$SCR/go.mod" -json -vet=off -count=1 -timeout 25m "${PK[@]}"
