#!/bin/bash
# tools/process_seed.sh <ID> [checkID...] -- <demo go test args>
# (SEED_WT=<worktree> SEED_DEST=<dir name under seeded/> override the defaults)
# confirms the seed in /tmp/seed-<ID>, runs the quick check(s) against it, copies the seed files
# to /verif/seeded/<ID>/ and prints what happened. (development helper, not a registered command)
export GOFLAGS=-mod=mod GOPROXY=off GOSUMDB=off GOTOOLCHAIN=local
ID=$1; shift; CHECKS=(); while [ "$1" != "--" ] && [ $# -gt 0 ]; do CHECKS+=("$1"); shift; done; shift
[ ${#CHECKS[@]} -eq 0 ] && CHECKS=($ID)
WT=${SEED_WT:-/tmp/seed-$ID}; DEST=${SEED_DEST:-$ID}
/verif/tools/confirm_seed.sh $ID $WT "$@" 2>&1 | tail -9
mkdir -p /verif/seeded/$DEST
cp $WT/seed/patch.diff $WT/seed/demo_test.go.txt /verif/seeded/$DEST/
cp $WT/seed/meta.json /verif/seeded/$DEST/meta.json
for c in "${CHECKS[@]}"; do
  out=$(cd /verif && POLYSIM_REPO=$WT ./check $c quick 2>&1); rc=$?
  echo "== check $c against seed $ID: exit=$rc"; echo "$out" | grep -E "violation key|VIOLATION|KNOWN-FINDING|inconclusive|zero" | head -6
done
