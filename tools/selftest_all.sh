#!/bin/bash
# tools/selftest_all.sh [reps] [runs] [ID...]: determinism self-test of every claimed check: <reps> processes
# with the same VERIF_SEED (GOMAXPROCS cycling 1/4/16, 8 at a time) must produce the same
# trace digest over <runs> runs. Log: .work/selftest.log (development helper)
cd "$(dirname "$0")/.."
REPS=${1:-30}; RUNS=${2:-12}; shift; shift
IDS=("$@"); [ ${#IDS[@]} -eq 0 ] && IDS=($(python3 -c "import json;print(' '.join(c['property_id'] for c in json.load(open('MANIFEST.json'))['checks']))"))
mkdir -p .work
for id in "${IDS[@]}"; do
  out=$(POLYSIM_SELFTEST_REPS=$REPS ./check $id selftest -runs $RUNS 2>&1); rc=$?
  echo "$(date +%H:%M:%S) $id reps=$REPS runs=$RUNS exit=$rc $(echo "$out" | tail -1)" >> .work/selftest.log
done
echo "done" >> .work/selftest.log
