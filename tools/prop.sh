#!/bin/bash
# print property text(s)
for id in "$@"; do jq -r --arg id $id 'select(.id==$id) | "== \(.id) \(.title)\nSTATEMENT: \(.statement)\nQUANT: \(.quantifier.text)\nWHY: \(.why_tests_cant)\nMECH: \((.anchors.mechanism//[])|map((.name//"")+" @ "+(.where//""))|join(" | "))\nOBS: \((.anchors.observe_at//[])|join(" | "))\nHOOK: \(.anchors.hook_needed)\n"' /verif/properties.jsonl; done
