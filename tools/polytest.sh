#!/bin/bash
# usage: /tmp/polytest.sh <worktree dir> <go test args...>    e.g.  /tmp/polytest.sh /tmp/seed-C12 -run TestX -count=1 ./core/store/ledgerstore/
# Runs `go test` inside a polynetwork/poly checkout OFFLINE without dirtying it:
#  - scratch -modfile copy (plain -mod=mod would rewrite go.mod)
#  - the two harmony packages need a cgo BLS library that is not installed: they are replaced by stubs through -overlay,
#    so ./native/service/... and everything else builds.
# Do not run plain `go build`/`go test` in the checkout.
set -e
WT=$(cd "$1" && pwd); shift
export GOFLAGS=-mod=mod GOPROXY=off GOSUMDB=off
S=/dev/shm/polytest-$(echo "$WT" | md5sum | cut -c1-8); mkdir -p "$S"
cp "$WT/go.mod" "$S/go.mod"; cp "$WT/go.sum" "$S/go.sum"
cat > "$S/hs.go" <<'G'
package harmony

import (
	"fmt"

	"github.com/polynetwork/poly/native"
)

type Handler struct{}

func NewHandler() *Handler { return new(Handler) }
func (h *Handler) SyncGenesisHeader(native *native.NativeService) error { return fmt.Errorf("harmony stub") }
func (h *Handler) SyncBlockHeader(native *native.NativeService) error   { return fmt.Errorf("harmony stub") }
func (h *Handler) SyncCrossChainMsg(native *native.NativeService) error { return fmt.Errorf("harmony stub") }
G
cat > "$S/cc.go" <<'G'
package harmony

import (
	"fmt"

	"github.com/polynetwork/poly/native"
	scom "github.com/polynetwork/poly/native/service/cross_chain_manager/common"
)

type Handler struct{}

func NewHandler() *Handler { return new(Handler) }
func (h *Handler) MakeDepositProposal(service *native.NativeService) (*scom.MakeTxParam, error) {
	return nil, fmt.Errorf("harmony stub")
}
G
printf 'package harmony\n' > "$S/empty.go"
{ echo '{"Replace":{'; first=1
  for d in native/service/header_sync/harmony native/service/cross_chain_manager/harmony; do
    stub="$S/hs.go"; [ "$d" = native/service/cross_chain_manager/harmony ] && stub="$S/cc.go"; used=0
    for f in "$WT/$d"/*.go; do [ -e "$f" ] || continue; [ $first = 1 ] || echo ','; first=0
      if [ $used = 0 ] && [[ "$f" != *_test.go ]]; then printf '"%s":"%s"' "$f" "$stub"; used=1; else printf '"%s":"%s"' "$f" "$S/empty.go"; fi
    done
  done; echo '}}'; } > "$S/overlay.json"
cd "$WT"
exec go test -modfile="$S/go.mod" -overlay "$S/overlay.json" -vet=off "$@"
