#!/bin/bash
# tools/thorough_all.sh <seed> <ID>... : thorough tier on /repo for the given checks, sequentially;
# log to .work/thorough-<seed>.log, evidence copies to .work/thorough-evidence/<seed>/ (development helper)
cd "$(dirname "$0")/.."
SEED=$1; shift
mkdir -p .work/thorough-evidence/$SEED
for id in "$@"; do
  start=$(date +%s)
  VERIF_SEED=$SEED ./check $id thorough > .work/thorough-$SEED-$id.out 2>&1; rc=$?
  end=$(date +%s)
  echo "$(date +%H:%M:%S) $id seed=$SEED exit=$rc wall=$((end-start))s $(grep -c '^VIOLATION' .work/thorough-$SEED-$id.out) violations $(grep -c '^KNOWN-FINDING' .work/thorough-$SEED-$id.out) known" >> .work/thorough-$SEED.log
  cp evidence/$id.json .work/thorough-evidence/$SEED/$id.json 2>/dev/null
done
echo "done $SEED $*" >> .work/thorough-$SEED.log
